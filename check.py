#!/venv/bin/python
"""Entry point registered in MANIFEST.json: check.py <ID> [--tier quick|thorough] [--seed N] [--replay FILE]"""
import sys
from pathlib import Path

sys.path.insert(0, str(Path(__file__).resolve().parent))

from cfdpmon.driver import main  # noqa: E402

if __name__ == "__main__":
    sys.exit(main())
