"""In-process monitor of host file-system access made *behind the back of the virtual filestore* (C16).

Armed by a check (``arm(prefixes)``), it records every Python-level file-system access whose path lies under one of the given prefixes while a
handler API call is on the stack (``api_depth > 0``) and the access is neither made by the filestore object under test nor by the harness
itself (``allow_depth == 0``).  Sources: ``sys.addaudithook`` (open, os.listdir/scandir/mkdir/remove/rename/rmdir/truncate/..., shutil.*) and
wrappers around ``os.stat`` / ``os.lstat`` / ``os.access`` (which raise no audit event; ``pathlib.Path.exists/is_file/is_dir/stat`` and
``os.path.exists/getsize`` all go through them).  Unarmed it costs two integer increments per API call.
"""
from __future__ import annotations

import os
import sys

api_depth = 0
allow_depth = 0
_armed: tuple[str, ...] = ()
records: list[dict] = []
other_accesses = 0
_installed = False
_orig = {}


def enter_api():
    global api_depth
    api_depth += 1


def leave_api():
    global api_depth
    api_depth -= 1


class allow:
    """with audit.allow(): region in which host access is legitimate (the filestore under test, the harness' own oracle reads)"""

    def __enter__(self):
        global allow_depth
        allow_depth += 1

    def __exit__(self, *a):
        global allow_depth
        allow_depth -= 1


def _note(source: str, path) -> None:
    global other_accesses
    if not _armed or api_depth <= 0 or allow_depth > 0:
        return
    try:
        p = os.fspath(path)
    except TypeError:
        return
    if isinstance(p, bytes):
        p = p.decode("utf-8", "replace")
    if any(p.startswith(pre) for pre in _armed):
        import traceback

        fr = [f"{os.path.basename(f.filename)}:{f.name}:{f.lineno}" for f in traceback.extract_stack()[:-2] if "cfdppy" in f.filename]
        records.append({"source": source, "path": p, "frames": fr[-3:]})
    else:
        other_accesses += 1


def _hook(event: str, args) -> None:
    if not _armed or api_depth <= 0 or allow_depth > 0:
        return
    if event == "open" or event.startswith("os.") or event.startswith("shutil.") or event.startswith("pathlib.") or event.startswith("glob."):
        for a in args[:2]:
            if isinstance(a, (str, bytes, os.PathLike)):
                _note("audit:" + event, a)


def install() -> None:
    global _installed
    if _installed:
        return
    _installed = True
    sys.addaudithook(_hook)
    for name in ("stat", "lstat", "access"):
        fn = getattr(os, name)
        _orig[name] = fn

        def wrapper(path, *a, _fn=fn, _name=name, **kw):
            if _armed and api_depth > 0 and allow_depth == 0 and not isinstance(path, int):
                _note("os." + _name, path)
            return _fn(path, *a, **kw)

        setattr(os, name, wrapper)


def arm(prefixes) -> None:
    global _armed, other_accesses
    install()
    _armed = tuple(str(p) for p in prefixes)
    records.clear()
    other_accesses = 0


def disarm() -> list[dict]:
    global _armed
    _armed = ()
    out = list(records)
    records.clear()
    return out
