"""Construction of Metadata PDU options for put requests from a JSON-able spec (replayable cases).

msgs spec: list of items
  ["raw", "<hex>"]                      arbitrary message to user
  ["orig", src_value, src_width, seq_value, seq_width]   reserved CFDP message: originating transaction id
  ["proxy_put_request", dest_entity, "src name", "dst name"]
  ["proxy_put_response", "COND", "DELIVERY", "FILESTATUS"]
opts spec: {"fs_requests": n, "overrides": n, "flow_label": "<hex>" | None}
"""
from __future__ import annotations

from spacepackets.cfdp import CfdpLv, ConditionCode, FaultHandlerCode, TransactionId
from spacepackets.cfdp.pdu.finished import DeliveryCode, FileStatus
from spacepackets.cfdp.tlv import (
    FaultHandlerOverrideTlv,
    FilestoreActionCode,
    FileStoreRequestTlv,
    FlowLabelTlv,
    MessageToUserTlv,
    OriginatingTransactionId,
    ProxyPutRequest,
    ProxyPutRequestParams,
    ProxyPutResponse,
    ProxyPutResponseParams,
)
from spacepackets.util import ByteFieldGenerator


def build_msgs(spec):
    out = []
    for it in spec:
        k = it[0]
        if k == "raw":
            out.append(MessageToUserTlv(bytes.fromhex(it[1])))
        elif k == "orig":
            tid = TransactionId(ByteFieldGenerator.from_int(it[2], it[1]), ByteFieldGenerator.from_int(it[4], it[3]))
            out.append(OriginatingTransactionId(tid).to_generic_msg_to_user_tlv())
        elif k == "proxy_put_request":
            p = ProxyPutRequestParams(ByteFieldGenerator.from_int(2, it[1]), CfdpLv.from_str(it[2]), CfdpLv.from_str(it[3]))
            out.append(ProxyPutRequest(p).to_generic_msg_to_user_tlv())
        elif k == "proxy_put_response":
            p = ProxyPutResponseParams(ConditionCode[it[1]], DeliveryCode[it[2]], FileStatus[it[3]])
            out.append(ProxyPutResponse(p).to_generic_msg_to_user_tlv())
        else:
            raise ValueError(it)
    return out


def build_opts(spec):
    """-> dict(fs_requests=..., fault_handler_overrides=..., flow_label_tlv=...) for PutRequest"""
    spec = spec or {}
    kw = {}
    n = spec.get("fs_requests", 0)
    if n:
        acts = [FilestoreActionCode.CREATE_FILE_SNM, FilestoreActionCode.DELETE_FILE_SNN, FilestoreActionCode.CREATE_DIR_SNN]
        kw["fs_requests"] = [FileStoreRequestTlv(acts[i % 3], f"fsreq-{i}.bin") for i in range(n)]
    n = spec.get("overrides", 0)
    if isinstance(n, list):
        # explicit [condition, handler code] pairs
        if n:
            kw["fault_handler_overrides"] = [FaultHandlerOverrideTlv(ConditionCode[c], FaultHandlerCode[h]) for c, h in n]
    elif n:
        conds = [ConditionCode.FILE_CHECKSUM_FAILURE, ConditionCode.FILE_SIZE_ERROR, ConditionCode.NAK_LIMIT_REACHED]
        kw["fault_handler_overrides"] = [FaultHandlerOverrideTlv(conds[i % 3], FaultHandlerCode.IGNORE_ERROR) for i in range(n)]
    if spec.get("flow_label") is not None:
        kw["flow_label_tlv"] = FlowLabelTlv(bytes.fromhex(spec["flow_label"]))
    return kw


REQUEST_EXTRAS = [
    {"opts": {"flow_label": ""}}, {"opts": {"flow_label": "0a0b", "fs_requests": 2}}, {"opts": {"overrides": 3}},
    {"msgs": [["raw", "80818283848586"], ["raw", "fffefdfcfb"]]}, {"msgs": [["orig", 5, 2, 7, 2]], "opts": {"fs_requests": 1, "overrides": 1, "flow_label": "ff"}},
    {"msgs": [["proxy_put_request", 3, "remote/src.bin", "local/dst.bin"], ["raw", "00"]]},
]


def request_extras(rng, p: float = 0.2) -> dict:
    """with probability p: cfg keys for the optional parts of a put request (options and messages to user, binary ones too)"""
    return dict(rng.choice(REQUEST_EXTRAS)) if rng.random() < p else {}
