"""Oracles shared between checks."""
from __future__ import annotations

from typing import Any

from . import models
from .world import SUCCESS, Runner, World, is_success_fin


class C01Monitor:
    """C01: whenever success is reported, the destination file is *at that moment* byte-identical
    to the source (or a genuine collision of the negotiated checksum).  Attached as an observer of
    the event log so that the comparison happens inside the indication callback / right at the
    retrieval of the Finished PDU."""

    def __init__(self, world: World):
        self.w = world
        self.viol: list[dict[str, Any]] = []
        self.success_reports = 0
        self.collisions = 0
        self.by_reporter: dict[str, int] = {}
        world.log.observers.append(self.on_event)

    def _judge(self, reporter: str, ev) -> None:
        w = self.w
        if w.cfg["metadata_only"]:
            return
        # the property's quantifier: null / modular checksums only in acknowledged mode (they cannot detect loss on their own)
        if w.cfg["cks"] in ("null", "modular") and not self.w.cfg_effective_mode_ack():
            self.outside_quantifier = getattr(self, "outside_quantifier", 0) + 1
            return
        self.success_reports += 1
        self.by_reporter[reporter] = self.by_reporter.get(reporter, 0) + 1
        got = w.dest_bytes()
        if got == w.data:
            return
        kind = w.cfg["cks"]
        if got is not None and kind != "null" and models.checksum(kind, got) == models.checksum(kind, w.data):
            self.collisions += 1
            return
        self.viol.append(
            {
                "clause": "C01:success-reported-but-file-differs",
                "reporter": reporter,
                "at_seq": ev["seq"],
                "dest_len": None if got is None else len(got),
                "src_len": len(w.data),
                "first_diff": None
                if got is None
                else next((i for i, (a, b) in enumerate(zip(got, w.data)) if a != b), min(len(got), len(w.data))),
            }
        )

    def on_event(self, ev) -> None:
        k = ev["kind"]
        if k == "ind_finished" and is_success_fin(ev["fin"]):
            if ev["side"] == "D":
                self._judge("receiver-indication", ev)
            elif self.w.cfg_effective_closure_or_ack():
                self._judge("sender-indication", ev)
        elif k == "tx" and ev["side"] == "D" and ev["d"].get("kind") == "FIN":
            d = ev["d"]
            if (d.get("cond"), d.get("delivery"), d.get("fstatus")) == SUCCESS:
                self._judge("finished-pdu", ev)


def _cfg_effective_closure_or_ack(self: World) -> bool:
    c = self.cfg
    mode = c["mode"] if c["req_mode"] in ("cfg", None) else c["req_mode"]
    closure = c["closure"] if c["req_closure"] in ("cfg", None) else c["req_closure"]
    return mode == "ack" or bool(closure)


World.cfg_effective_closure_or_ack = _cfg_effective_closure_or_ack  # type: ignore[attr-defined]


def _cfg_effective_mode_ack(self: World) -> bool:
    c = self.cfg
    mode = c["mode"] if c["req_mode"] in ("cfg", None) else c["req_mode"]
    return mode == "ack"


World.cfg_effective_mode_ack = _cfg_effective_mode_ack  # type: ignore[attr-defined]


def success_end_state(w: World, r: Runner, outcome: str, *, allow_faults_cb: bool = False, exactly_one: bool = True, since: int = 0) -> list[dict[str, Any]]:
    """The 'transfer completed successfully' end-state of C02/C03: file identical, exactly one
    successful Transaction-Finished per side, both idle, (no fault callback, no exception)."""
    v: list[dict[str, Any]] = []
    if outcome != "done":
        v.append(
            {
                "clause": "no-quiescence-within-bound",
                "outcome": outcome,
                "src": (w.S.h.state.name, w.S.h.step.name),
                "dst": (w.D.h.state.name, w.D.h.step.name),
                "rounds": r.rounds,
                "expiries": r.expiries,
            }
        )
    else:
        if not w.both_idle():
            v.append({"clause": "handler-not-idle"})
    if not w.cfg["metadata_only"]:
        got = w.dest_bytes()
        if got != w.data:
            v.append({"clause": "file-differs", "dest_len": None if got is None else len(got), "src_len": len(w.data)})
    for side in ("S", "D"):
        fins = [e["fin"] for e in w.log.of("ind_finished", side) if e["seq"] >= since]
        if w.cfg["ind"][3] is False:
            continue
        if len(fins) != 1 and (exactly_one or not fins):
            v.append({"clause": "finished-indication-count", "side": side, "fins": fins})
        elif any(tuple(f[:2]) != ("NO_ERROR", "DATA_COMPLETE") for f in fins):
            v.append({"clause": "finished-indication-not-success", "side": side, "fins": fins})
    if not allow_faults_cb:
        fh = [(e["side"], e["which"], e["cond"]) for e in w.log.of("fh") if e["seq"] >= since]
        if fh:
            v.append({"clause": "fault-callback-fired", "fh": fh})
    return v


def trace_summary(w: World, r: Runner | None = None, limit: int = 60) -> list[str]:
    """Compact human readable trace for evidence samples / witnesses."""
    from . import wire

    out = []
    for e in w.log.events:
        k = e["kind"]
        if k == "tx":
            out.append(f"{e['side']}>{wire.short(e['d'])}")
        elif k == "tx_shell":
            out.append(f"{e['side']}shell>{wire.short(e['d'])}")
        elif k == "rx":
            out.append(f"{e['side']}<{wire.short(e['d'])}")
        elif k == "link":
            out.append(f"link:{e['what']}")
        elif k == "clock":
            out.append(f"tick#{e['n']}")
        elif k == "fh":
            out.append(f"{e['side']}!fh:{e['which']}:{e['cond']}")
        elif k == "ind_finished":
            out.append(f"{e['side']}*finished{tuple(e['fin'][:3])}")
        elif k == "exc":
            out.append(f"{e['side']}!exc:{e['etype']}")
        elif k == "action":
            out.append(f"{e['side']}@{e['what']}={e['res']}")
    if len(out) > limit:
        out = out[: limit // 2] + ["..."] + out[-limit // 2 :]
    return out
