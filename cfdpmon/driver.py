"""Driver shared by all checks: sharding over subprocess workers, merging, three-valued verdict,
evidence file, replay files and known-findings handling (DESIGN 2.2)."""
from __future__ import annotations

import argparse
import hashlib
import importlib
import json
import os
import subprocess
import sys
import time
import traceback
from collections import Counter
from pathlib import Path
from typing import Any

from . import VERIF_ROOT, cfdppy_location, tree_hash

# the overrides are only used by tools/mut.py so that mutation trials never touch the committed evidence
EVIDENCE_DIR = Path(os.environ.get("CFDPMON_EVIDENCE_DIR", VERIF_ROOT / "evidence"))
REPLAY_DIR = Path(os.environ.get("CFDPMON_REPLAY_DIR", VERIF_ROOT / "replays"))
WORK_DIR = Path(os.environ.get("CFDPMON_WORK_DIR", VERIF_ROOT / ".work"))
KNOWN_FILE = VERIF_ROOT / "known_findings.json"

MAX_VIOL_PER_WORKER = 40
MAX_SAMPLES = 4


def jsonable(o: Any) -> Any:
    if isinstance(o, (bytes, bytearray)):
        return {"hex": bytes(o).hex()} if len(o) <= 96 else {"hex_prefix": bytes(o[:48]).hex(), "len": len(o)}
    if isinstance(o, dict):
        return {str(k): jsonable(v) for k, v in o.items()}
    if isinstance(o, (list, tuple, set, frozenset)):
        return [jsonable(v) for v in o]
    if isinstance(o, (str, int, float, bool)) or o is None:
        return o
    if hasattr(o, "name") and hasattr(o, "value"):
        return o.name
    return repr(o)


def sig_hash(sig: Any) -> str:
    return hashlib.sha1(json.dumps(jsonable(sig), sort_keys=True).encode()).hexdigest()[:16]


def load_check(prop: str):
    return importlib.import_module(f"cfdpmon.checks.{prop.lower()}")


def load_known() -> dict[str, Any]:
    if KNOWN_FILE.exists():
        return json.loads(KNOWN_FILE.read_text())
    return {"findings": [], "fixed": []}


# ------------------------------------------------------------------------------------------------
# worker
# ------------------------------------------------------------------------------------------------


def run_worker(mod, tier: str, seed: int, shard: int, nshards: int, out: Path) -> None:
    import logging

    logging.disable(logging.CRITICAL)  # the library logs warnings for odd but legal inputs; the monitors do not read the log
    t0 = time.time()
    cases = list(mod.gen_cases(tier, seed))
    res: dict[str, Any] = {
        "total_cases": len(cases),
        "n": 0,
        "sigs": set(),
        "obs": Counter(),
        "keys": {},
        "viols": [],
        "nviol": 0,
        "samples": [],
        "errors": [],
    }
    for i, case in enumerate(cases):
        if i % nshards != shard:
            continue
        try:
            r = mod.run_case(case)
        except Exception as e:  # noqa: BLE001  harness failure: never folded into held/violated
            # (the remaining cases are still run: a violation found by any of them is reported, and outweighs the harness errors)
            res["nerrors"] = res.get("nerrors", 0) + 1
            if len(res["errors"]) < 6:
                res["errors"].append({"case": jsonable(case), "error": traceback.format_exc()[-1500:]})
            continue
        res["n"] += 1
        if r.get("sig") is not None:
            res["sigs"].add(sig_hash(r["sig"]))
        # batches: a case may stand for many distinct sub-cases, given as a list of hashes (or sigs)
        for sg in r.get("sigs") or []:
            res["sigs"].add(sg if isinstance(sg, str) and len(sg) == 16 else sig_hash(sg))
        for k, v in (r.get("obs") or {}).items():
            res["obs"][k] += v
        for k, vals in (r.get("keys") or {}).items():
            res["keys"].setdefault(k, set()).update(vals)
        for v in r.get("viol") or []:
            res["nviol"] += 1
            if len(res["viols"]) < MAX_VIOL_PER_WORKER:
                res["viols"].append({"case": jsonable(case), "viol": jsonable(v)})
        if r.get("sample") is not None and len(res["samples"]) < MAX_SAMPLES and (r.get("sig") is not None):
            res["samples"].append({"case": jsonable(case), "trace": jsonable(r["sample"])})
    res["sigs"] = sorted(res["sigs"])
    res["keys"] = {k: sorted(v) for k, v in res["keys"].items()}
    res["obs"] = dict(res["obs"])
    res["wall"] = time.time() - t0
    out.write_text(json.dumps(res))


# ------------------------------------------------------------------------------------------------
# driver
# ------------------------------------------------------------------------------------------------


def write_replay(prop: str, item: dict[str, Any], tier: str, seed: int) -> Path:
    REPLAY_DIR.mkdir(parents=True, exist_ok=True)
    h = hashlib.sha1(json.dumps(item, sort_keys=True).encode()).hexdigest()[:12]
    p = REPLAY_DIR / f"{prop}-{h}.json"
    p.write_text(json.dumps({"property": prop, "tier": tier, "seed": seed, **item}, indent=1))
    return p


def classify_all(prop: str, viols: list[dict[str, Any]]):
    from . import findings

    known = load_known()
    open_keys = {f["key"]: f for f in known["findings"] if f["property"] == prop and f.get("status", "open") == "open"}
    new, seen = [], {}
    for item in viols:
        key = findings.classify(prop, item["viol"], item["case"])
        if key is not None and key in open_keys:
            seen.setdefault(key, []).append(item)
        else:
            new.append(item)
    return new, seen, open_keys


def main(argv: list[str] | None = None) -> int:
    ap = argparse.ArgumentParser()
    ap.add_argument("prop")
    ap.add_argument("--tier", default=os.environ.get("VERIF_TIER", "quick"), choices=["quick", "thorough"])
    ap.add_argument("--seed", type=int, default=int(os.environ.get("VERIF_SEED", "0")))
    ap.add_argument("--replay")
    ap.add_argument("--worker")
    ap.add_argument("--out")
    ap.add_argument("--jobs", type=int, default=int(os.environ.get("VERIF_JOBS", "0")))
    a = ap.parse_args(argv)
    prop = a.prop.upper()
    mod = load_check(prop)

    if a.worker:
        shard, n = (int(x) for x in a.worker.split("/"))
        run_worker(mod, a.tier, a.seed, shard, n, Path(a.out))
        return 0

    if a.replay:
        item = json.loads(Path(a.replay).read_text())
        r = mod.run_case(item["case"])
        viols = [{"case": item["case"], "viol": jsonable(v)} for v in (r.get("viol") or [])]
        new, seen, open_keys = classify_all(prop, viols)
        for key in seen:
            print(f"KNOWN-FINDING: property={prop} {open_keys[key]['mechanism']}")
        for it in new:
            print("violation:", json.dumps(it["viol"])[:2000])
        if new:
            print(f"VIOLATION property={prop} replay={a.replay}")
            return 1
        print(f"replay of {a.replay}: property held on this case")
        return 0

    t0 = time.time()
    jobs = a.jobs or min(16, os.cpu_count() or 1)
    wd = WORK_DIR / prop
    wd.mkdir(parents=True, exist_ok=True)
    for f in wd.glob("part-*.json"):
        f.unlink()
    env = dict(os.environ)
    import shutil
    import tempfile

    shm = "/dev/shm" if os.path.isdir("/dev/shm") and os.access("/dev/shm", os.W_OK) else tempfile.gettempdir()
    scratch = tempfile.mkdtemp(prefix=f"cfdpmon-run-{prop}-", dir=shm)
    env["CFDPMON_SCRATCH"] = scratch
    env["PYTHONHASHSEED"] = "0"
    env.setdefault("PYTHONDONTWRITEBYTECODE", "1")
    timeout = getattr(mod, "TIMEOUT", {"quick": 600, "thorough": 5400})[a.tier]
    procs = []
    for i in range(jobs):
        out = wd / f"part-{i}.json"
        cmd = [sys.executable, "-X", "dev", "-W", "ignore", str(VERIF_ROOT / "check.py"), prop, "--tier", a.tier,
               "--seed", str(a.seed), "--worker", f"{i}/{jobs}", "--out", str(out)]
        if getattr(mod, "NO_DEV_MODE", False):
            cmd = [c for c in cmd if c not in ("-X", "dev")]
        procs.append((i, out, subprocess.Popen(cmd, env=env, stdout=subprocess.PIPE, stderr=subprocess.STDOUT, text=True)))
    inconclusive: list[str] = []
    parts = []
    deadline = time.time() + timeout
    for i, out, p in procs:
        try:
            so, _ = p.communicate(timeout=max(1.0, deadline - time.time()))
        except subprocess.TimeoutExpired:
            p.kill()
            so, _ = p.communicate()
            inconclusive.append(f"worker {i} exceeded the wall-clock watchdog of {timeout}s")
            continue
        if p.returncode != 0 or not out.exists():
            inconclusive.append(f"worker {i} failed rc={p.returncode}: {so[-800:]}")
            continue
        parts.append(json.loads(out.read_text()))
        if so.strip():
            sys.stderr.write(so[-2000:])

    shutil.rmtree(scratch, ignore_errors=True)
    total = parts[0]["total_cases"] if parts else 0
    n = sum(p["n"] for p in parts)
    sigs: set[str] = set()
    obs: Counter = Counter()
    keys: dict[str, set] = {}
    viols: list[dict[str, Any]] = []
    nviol = 0
    samples: list[Any] = []
    for p in parts:
        sigs.update(p["sigs"])
        obs.update(p["obs"])
        for k, v in p["keys"].items():
            keys.setdefault(k, set()).update(v)
        viols.extend(p["viols"])
        nviol += p["nviol"]
        samples.extend(p["samples"])
        for e in p["errors"]:
            inconclusive.append("harness error: " + e["error"][-600:])
    samples = samples[:MAX_SAMPLES]

    if hasattr(mod, "finalize"):
        extra_v, extra_inc = mod.finalize({"obs": obs, "keys": keys, "n": n, "tier": a.tier})
        for v in extra_v:
            viols.append({"case": {"finalize": True}, "viol": jsonable(v)})
            nviol += 1
        inconclusive.extend(extra_inc)
    if n < total:
        inconclusive.append(f"only {n} of {total} cases were executed")
    for k, m in getattr(mod, "REQUIRED", {}).items():
        m = m[a.tier] if isinstance(m, dict) else m
        if obs.get(k, 0) < m:
            inconclusive.append(f"deciding counter {k}={obs.get(k, 0)} below required minimum {m}")
    if n > 0 and len(sigs) < 2:
        inconclusive.append(f"only {len(sigs)} distinct non-trivial cases")

    new, seen, open_keys = classify_all(prop, viols)
    for key, items in seen.items():
        print(f"KNOWN-FINDING: property={prop} {open_keys[key]['mechanism']} [{len(items)} witnesses, e.g. {json.dumps(items[0]['viol'])[:300]}]")
    replay_paths = []
    by_clause: Counter = Counter(str(it["viol"].get("clause")) for it in new)
    if new:
        print("unlisted violation witnesses by clause:", dict(by_clause))
    shown: Counter = Counter()
    for it in new:
        cl = str(it["viol"].get("clause"))
        if shown[cl] >= 2 or sum(shown.values()) >= 8:
            continue
        shown[cl] += 1
        rp = write_replay(prop, it, a.tier, a.seed)
        replay_paths.append(rp)
        print("violation:", json.dumps(it["viol"])[:1200])
        print(f"VIOLATION property={prop} replay={rp}")

    wall = time.time() - t0
    exhaustive = bool(mod.exhaustive(a.tier)) if hasattr(mod, "exhaustive") else False
    cov = {
        "evaluations": n,
        "distinct_nontrivial": len(sigs),
        "rule": mod.RULE,
        "samples": samples if samples else [{"note": "no non-trivial sample recorded"}],
        "exhaustive": exhaustive,
        "observed": dict(sorted(obs.items())),
        "observed_sets": {k: sorted(v) for k, v in sorted(keys.items())},
        "violations_total": nviol,
        "violations_unlisted": len(new),
        "known_findings_seen": {k: len(v) for k, v in seen.items()},
        "inconclusive_reasons": inconclusive,
        "verdict": "violated" if new else ("inconclusive" if inconclusive else "held on what was observed"),
        "tree_hash": tree_hash(),
        "cfdppy_file": cfdppy_location(),
        "workers": jobs,
    }
    if hasattr(mod, "BOUNDS"):
        cov["bounds"] = mod.BOUNDS.get(a.tier) if isinstance(mod.BOUNDS, dict) and a.tier in mod.BOUNDS else mod.BOUNDS
    ev = {
        "property_id": prop,
        "tier": a.tier,
        "seed": a.seed,
        "level": mod.LEVEL,
        "coverage": cov,
        "assumptions": list(getattr(mod, "ASSUMPTIONS", [])),
        "wall_s": round(wall, 2),
        "violations": len(new),
    }
    EVIDENCE_DIR.mkdir(parents=True, exist_ok=True)
    (EVIDENCE_DIR / f"{prop}.json").write_text(json.dumps(ev, indent=1, sort_keys=False))

    print(
        f"{prop} tier={a.tier} seed={a.seed}: {n} cases, {len(sigs)} distinct non-trivial, "
        f"{nviol} violation witnesses ({len(new)} unlisted), {wall:.1f}s"
    )
    top = ", ".join(f"{k}={v}" for k, v in sorted(obs.items())[:40])
    print(f"observed: {top}")
    if new:
        return 1
    if inconclusive:
        for r in inconclusive:
            print(f"INCONCLUSIVE property={prop} reason={r}")
        return 2
    return 0
