"""The loopback bench: real SourceHandler + real DestHandler, a byte level link with fault
primitives, the surrounding entity shell the library documents as the user's duty, the virtual
clock and a fair scheduler.  Every run is a pure function of (config, plan) -> replayable.
"""
from __future__ import annotations

import copy
import os
import random
import shutil
import tempfile
import zlib
from datetime import timedelta
from pathlib import Path
from typing import Any

from spacepackets.cfdp import (
    ChecksumType,
    ConditionCode,
    Direction,
    FaultHandlerCode,
    TransactionId,
    TransmissionMode,
)
from spacepackets.cfdp.pdu import AckPdu, DirectiveType, TransactionStatus
from spacepackets.countdown import Countdown
from spacepackets.seqcount import SeqCountProvider
from spacepackets.util import ByteFieldGenerator

import cfdppy.exceptions as cex
from cfdppy.defs import CfdpState
from cfdppy.filestore import NativeFilestore
from cfdppy.handler.dest import DestHandler, acknowledge_inactive_eof_pdu
from cfdppy.handler.source import SourceHandler
from cfdppy.mib import (
    CheckTimerProvider,
    IndicationCfg,
    LocalEntityCfg,
    RemoteEntityCfg,
    RemoteEntityCfgTable,
)
from cfdppy.request import PutRequest

from . import audit, vclock, wire
from .rec import EventLog, MemFilestore, RecFaultHandler, RecFilestore, RecQueue, RecUser, tid_key

PROTO_EXC = tuple(
    v for v in vars(cex).values() if isinstance(v, type) and issubclass(v, Exception) and v.__module__ == cex.__name__
)

CKS = {
    "null": ChecksumType.NULL_CHECKSUM,
    "modular": ChecksumType.MODULAR,
    "crc32": ChecksumType.CRC_32,
    "crc32c": ChecksumType.CRC_32C,
}
MODES = {"ack": TransmissionMode.ACKNOWLEDGED, "unack": TransmissionMode.UNACKNOWLEDGED, None: None}
FHC = {
    "ignore": FaultHandlerCode.IGNORE_ERROR,
    "cancel": FaultHandlerCode.NOTICE_OF_CANCELLATION,
    "abandon": FaultHandlerCode.ABANDON_TRANSACTION,
    "suspend": FaultHandlerCode.NOTICE_OF_SUSPENSION,
}

DEFAULT_CFG: dict[str, Any] = {
    "mode": "ack",
    "closure": False,
    "seg": 4,
    "maxpkt": 64,
    "crc": False,
    "cks": "crc32",
    "imm_nak": True,
    "root_tag": None,
    "scribble_user": False,
    "scribble_pdus": False,
    "ack_limit": 3,
    "nak_limit": 3,
    "check_limit": 2,
    "ack_ivl": 1.0,
    "nak_ivl": 1.0,
    "check_ivl_ms": 1000,
    "src_idw": 2,
    "dst_idw": 2,
    "seqw": 16,
    "seq_start": 0,
    "disp": False,
    "size": 10,
    "content": 0,  # seed of the content generator, or a str pattern name
    "dest": "file",  # file | dir | existing | dir_existing (directory which already holds a file named like the source)
    "fs": "native",  # native | mem (paths do not exist on the host) | mem_decoy (paths exist on the host with other content)
    "ind": [True, True, True, True],  # eof_sent, eof_recv, file_segment_recvd, transaction_finished
    "req_mode": "cfg",  # 'cfg' -> same as mode given in the request; None -> from MIB
    "req_closure": "cfg",
    "fh_src": {},
    "fh_dst": {},
    "metadata_only": False,
    "msgs": None,  # messages to user of the put request (spec: cfdpmon/msgs.py)
    "opts": None,  # other Metadata options of the put request: {"fs_requests": n, "overrides": n, "flow_label": hex}
    "src_name": "src.bin",
    "dst_name": "out.bin",
    # overrides applied to the RemoteEntityCfg each handler holds for its peer
    "rc_at_src": {},
    "rc_at_dst": {},
}


def make_content(size: int, content) -> bytes:
    if isinstance(content, str):
        if content == "zeros":
            return b"\0" * size
        if content == "ones":
            return b"\xff" * size
        if content == "ramp":
            return bytes(i & 0xFF for i in range(size))
        if content.startswith("hex:"):
            return bytes.fromhex(content[4:])
        raise ValueError(content)
    return random.Random(content * 7919 + size).randbytes(size)


class _CTP(CheckTimerProvider):
    def __init__(self, ms: int):
        self.ms = ms
        self.provided = 0

    def provide_check_timer(self, local_entity_id, remote_entity_id, entity_type) -> Countdown:
        self.provided += 1
        return Countdown(timedelta(milliseconds=self.ms))


def _scratch_base() -> str:
    # the driver gives every run a scratch directory of its own and removes it afterwards (also when a worker was killed)
    base = os.environ.get("CFDPMON_SCRATCH")
    if base and os.path.isdir(base):
        return base
    return "/dev/shm" if os.path.isdir("/dev/shm") and os.access("/dev/shm", os.W_OK) else tempfile.gettempdir()


def state_snapshot(h) -> tuple:
    return (
        h.state.name,
        h.step.name,
        h.progress,
        h.file_size,
        tid_key(h.transaction_id),
        h.num_packets_ready,
    )


class Endpoint:
    """One handler plus its recorders.  Every API call is logged call-event before and
    return/exception event after, with the public state before and after."""

    def __init__(self, world: "World", side: str, handler, user: RecUser, fh: RecFaultHandler, fs: RecFilestore):
        self.w = world
        self.side = side
        self.h = handler
        self.user = user
        self.fh = fh
        self.fs = fs
        self.log = world.log
        self.queue_hooked = False
        try:
            q = handler._pdus_to_be_sent
            rq = RecQueue(self.log, side)
            rq.extend(q)
            handler._pdus_to_be_sent = rq
            self.queue_hooked = True
        except AttributeError:
            pass
        self.outbox: list[dict[str, Any]] = []
        self.autodrain = True
        self.cur_tid = None
        self.closed: set[tuple] = set()

    # -- API calls -----------------------------------------------------------------------------
    def _call(self, api: str, fn, arg_desc, *args):
        if self.w.call_hook is not None:
            self.w.call_hook()  # (C11: another world of the process may run API calls of its own here)
        before = state_snapshot(self.h)
        cev = self.log.add("call", self.side, api=api, arg=arg_desc, before=before, qlen=before[5], queued=len(getattr(self.h, "_pdus_to_be_sent", ())))
        vclock.use(self.w.clock)
        audit.enter_api()
        try:
            res = fn(*args)
        except BaseException as e:  # noqa: BLE001
            audit.leave_api()
            import traceback

            tb = traceback.extract_tb(e.__traceback__)
            frames = [(Path(f.filename).name, f.name, f.lineno) for f in tb if "cfdppy" in f.filename]
            self.log.add(
                "exc",
                self.side,
                api=api,
                call_seq=cev["seq"],
                etype=type(e).__name__,
                proto=isinstance(e, PROTO_EXC),
                msg=str(e)[:200],
                frames=frames[-3:],
                after=state_snapshot(self.h),
            )
            self._track()
            raise
        audit.leave_api()
        self.log.add("ret", self.side, api=api, call_seq=cev["seq"], after=state_snapshot(self.h), res=res if isinstance(res, bool) else None)
        self._track()
        return res

    def _track(self) -> None:
        t = tid_key(self.h.transaction_id)
        if t is not None:
            self.cur_tid = t
        if self.h.state == CfdpState.IDLE and self.cur_tid is not None:
            self.closed.add((self.cur_tid[0], self.cur_tid[2]))
            self.cur_tid = None

    def sm(self, pdu=None, desc=None) -> list[dict[str, Any]]:
        try:
            self._call("state_machine", self.h.state_machine, desc, pdu)
        finally:
            if self.autodrain:
                self.drain()
        return self.outbox

    def put(self, req: PutRequest) -> bool:
        return self._call("put_request", self.h.put_request, None, req)

    def cancel(self, tid: TransactionId) -> bool:
        try:
            return self._call("cancel_request", self.h.cancel_request, tid_key(tid), tid)
        finally:
            if self.autodrain:
                self.drain()

    def reset(self) -> None:
        self._call("reset", self.h.reset, None)

    def drain(self) -> int:
        n = 0
        while True:
            holder = self.h.get_next_packet()
            if holder is None:
                break
            n += 1
            enq_raw = holder.__dict__.get("_enq_raw")
            err = None
            try:
                raw = bytes(holder.pack())
            except Exception as e:  # noqa: BLE001
                raw, err = None, f"{type(e).__name__}: {e}"
            # what a real user sends is what the PDU packs to when it is retrieved; the enqueue-time snapshot is only kept to
            # detect PDUs that were changed between being queued and being retrieved (aliasing of mutable handler state)
            use = raw
            d = wire.describe(use) if use is not None else {"kind": "?", "error": err}
            ev = self.log.add(
                "tx",
                self.side,
                raw=use,
                raw_at_enqueue=enq_raw,
                mutated_after_enqueue=(enq_raw is not None and raw is not None and enq_raw != raw),
                enq_seq=holder.__dict__.get("_enq_seq"),
                d=d,
                pack_error=err,
                obj_packet_len=getattr(holder.pdu, "packet_len", None),
            )
            self.outbox.append({"raw": use, "d": d, "seq": ev["seq"], "side": self.side})
            if self.w.cfg["scribble_pdus"]:
                # the PDU object was handed out: it is the user's now.  A user (or a receiving handler it is passed to as an object) may edit it;
                # here the direction flag of its header is flipped after the bytes were taken.
                try:
                    hdr = holder.pdu.pdu_header
                    hdr.direction = Direction.TOWARDS_SENDER if hdr.direction == Direction.TOWARDS_RECEIVER else Direction.TOWARDS_RECEIVER
                    self.w.scribbled_pdus += 1
                except Exception:  # noqa: BLE001
                    pass
        return n


BIG_FILE = 1 << 26


class World:
    def __init__(self, cfg: dict[str, Any] | None = None):
        c = copy.deepcopy(DEFAULT_CFG)
        if cfg:
            unknown = set(cfg) - set(c)
            if unknown:
                raise KeyError(f"unknown config keys {unknown}")
            c.update(copy.deepcopy(cfg))
        self.cfg = c
        self.clock = vclock.reset()
        self.log = EventLog()
        self.data = make_content(c["size"], c["content"]) if not c["metadata_only"] else b""
        self.sandbox: Path | None = None
        self._raw_replace = False
        self._build_fs()
        self.call_hook = None
        self.last_request = None
        self.reuse_last_request = False
        self.scribbled_pdus = 0
        self._build_handlers()
        self.tid: TransactionId | None = None

    # -- filestores ----------------------------------------------------------------------------
    def _build_fs(self) -> None:
        c = self.cfg
        if c["fs"] == "native":
            self.sandbox = Path(tempfile.mkdtemp(prefix="cfdpmon-", dir=_scratch_base()))
            root = self.sandbox
            (root / "srcdir").mkdir()
            (root / "dstdir").mkdir()
            self.src_inner = NativeFilestore()
            self.dst_inner = self.src_inner
        elif c["fs"] == "mem_decoy":
            # in-memory filestores whose path names also exist on the host, with *different* content (C16): a handler which goes
            # behind the filestore's back reads decoy bytes / changes the host sandbox
            self.sandbox = Path(tempfile.mkdtemp(prefix="cfdpmon-", dir=_scratch_base()))
            root = self.sandbox
            (root / "srcdir").mkdir()
            (root / "dstdir").mkdir()
            self.src_inner = MemFilestore()
            self.dst_inner = MemFilestore()
            self.src_inner.mkdir(root / "srcdir")
            self.dst_inner.mkdir(root / "dstdir")
        else:
            nonce = f"{random.Random(c["size"] * 31 + zlib.crc32(repr(c["content"]).encode())).getrandbits(48):012x}"
            if c["root_tag"]:
                nonce = c["root_tag"]  # several users of one process whose (virtual) path names are the same
            root = Path(f"/cfdpmon-nonexistent-{nonce}")
            self.src_inner = MemFilestore()
            self.dst_inner = MemFilestore()
            self.src_inner.mkdir(root / "srcdir")
            self.dst_inner.mkdir(root / "dstdir")
        self.root = root
        self.src_path = root / "srcdir" / c["src_name"]
        if c["dest"] in ("dir", "dir_existing"):
            self.dst_req_path = root / "dstdir"
            self.dst_path = root / "dstdir" / c["src_name"]
        else:
            self.dst_req_path = root / "dstdir" / c["dst_name"]
            self.dst_path = self.dst_req_path
        self.preexisting = None
        if not c["metadata_only"]:
            self.write_raw("src", self.src_path, self.data)
        if c["dest"] in ("existing", "dir_existing"):
            self.preexisting = b"OLD-CONTENT-" * 3 + bytes(range(40)) + self.data[::-1]
            self.write_raw("dst", self.dst_path, self.preexisting)
        if c["fs"] == "mem_decoy":
            if not c["metadata_only"]:
                Path(self.src_path).write_bytes(b"DECOY-SOURCE-" + bytes(reversed(self.data)) + b"-HOST")
            Path(root / "dstdir" / "host-decoy.bin").write_bytes(b"host file next to the destination")
            if c["dest"] in ("existing", "dir_existing"):
                Path(self.dst_path).write_bytes(b"DECOY-DESTINATION-ON-HOST")
        self.src_fs = RecFilestore(self.src_inner, self.log, "S")
        self.dst_fs = RecFilestore(self.dst_inner, self.log, "D")

    def write_raw(self, side: str, path: Path, data: bytes) -> None:
        inner = self.src_inner if side == "src" else self.dst_inner
        if isinstance(inner, MemFilestore):
            inner.put(path, data)
        else:
            p = Path(path)
            # an existing file is alternately rewritten in place and replaced by a new file of the same name (as editors and atomic
            # writers do): whoever kept the old file open, or remembered something about it, then sees the old content
            if p.exists() and self._raw_replace:
                tmp = p.with_name(p.name + ".new~")
                tmp.write_bytes(data)
                os.replace(tmp, p)
            else:
                p.write_bytes(data)
            self._raw_replace = not self._raw_replace

    def read_raw(self, side: str, path: Path) -> bytes | None:
        """Reads a file *behind* the filestore under test (plain open / dict access)."""
        inner = self.src_inner if side == "src" else self.dst_inner
        if isinstance(inner, MemFilestore):
            return inner.get(path)
        with audit.allow():
            try:
                return Path(path).read_bytes()
            except (FileNotFoundError, IsADirectoryError, NotADirectoryError):
                return None

    def host_tree(self) -> dict[str, Any]:
        """snapshot of the host sandbox directory (path -> bytes | DIR), whatever filestore the handlers use"""
        out: dict[str, Any] = {}
        if self.sandbox is None:
            return out
        with audit.allow():
            for p in sorted(self.sandbox.rglob("*")):
                rel = p.relative_to(self.sandbox).as_posix()
                if p.is_dir():
                    out[rel] = "DIR"
                    continue
                size = p.stat().st_size
                if size > BIG_FILE:
                    # a File Data PDU may name any offset (64 bit with the large file flag): the file is then
                    # sparse and far larger than memory; it is summarised by its size and its first bytes
                    with open(p, "rb") as f:
                        out[rel] = ("BIG", size, f.read(4096))
                else:
                    out[rel] = p.read_bytes()
        return out

    def dest_bytes(self) -> bytes | None:
        return self.read_raw("dst", self.dst_path)

    def tree(self, side: str = "dst") -> dict[str, Any]:
        inner = self.src_inner if side == "src" else self.dst_inner
        if isinstance(inner, MemFilestore):
            return inner.tree()
        return self.host_tree()

    # -- handlers ------------------------------------------------------------------------------
    def _remote_cfg(self, entity_id, over: dict[str, Any]) -> RemoteEntityCfg:
        c = self.cfg
        kw = dict(
            entity_id=entity_id,
            max_file_segment_len=c["seg"],
            max_packet_len=c["maxpkt"],
            closure_requested=c["closure"],
            crc_on_transmission=c["crc"],
            default_transmission_mode=MODES[c["mode"]],
            crc_type=CKS[c["cks"]],
            positive_ack_timer_interval_seconds=c["ack_ivl"],
            positive_ack_timer_expiration_limit=c["ack_limit"],
            check_limit=c["check_limit"],
            disposition_on_cancellation=c["disp"],
            immediate_nak_mode=c["imm_nak"],
            nak_timer_interval_seconds=c["nak_ivl"],
            nak_timer_expiration_limit=c["nak_limit"],
        )
        for k, v in over.items():
            if k == "default_transmission_mode":
                v = MODES[v]
            elif k == "crc_type":
                v = CKS[v]
            kw[k] = v
        return RemoteEntityCfg(**kw)

    def _build_handlers(self) -> None:
        c = self.cfg
        self.src_id = ByteFieldGenerator.from_int(c["src_idw"], 1)
        self.dst_id = ByteFieldGenerator.from_int(c["dst_idw"], 2)
        self.rc_dst_at_src = self._remote_cfg(self.dst_id, c["rc_at_src"])
        self.rc_src_at_dst = self._remote_cfg(self.src_id, c["rc_at_dst"])
        # a third entity the sender also knows, configured as differently as possible: a request towards it while a transaction to the
        # receiver is running is refused and must not leak any of these settings into the running transaction
        self.third_id = ByteFieldGenerator.from_int(c["dst_idw"], 3)
        self.rc_third_at_src = self._remote_cfg(self.third_id, {
            "max_file_segment_len": 3, "max_packet_len": max(30, c["maxpkt"] // 2), "closure_requested": not c["closure"],
            "crc_on_transmission": not c["crc"], "default_transmission_mode": "unack" if c["mode"] == "ack" else "ack",
            "crc_type": "modular" if c["cks"] != "modular" else "crc32", "positive_ack_timer_interval_seconds": c["ack_ivl"] * 3 + 0.007,
            "positive_ack_timer_expiration_limit": c["ack_limit"] + 3, "check_limit": c["check_limit"] + 3, "immediate_nak_mode": not c["imm_nak"],
            "nak_timer_interval_seconds": c["nak_ivl"] * 3 + 0.007, "nak_timer_expiration_limit": c["nak_limit"] + 3})
        ind = c["ind"]

        def indcfg():
            return IndicationCfg(
                eof_sent_indication_required=ind[0],
                eof_recv_indication_required=ind[1],
                file_segment_recvd_indication_required=ind[2],
                transaction_finished_indication_required=ind[3],
            )

        sfh, dfh = RecFaultHandler(self.log, "S"), RecFaultHandler(self.log, "D")
        for fh, over in ((sfh, c["fh_src"]), (dfh, c["fh_dst"])):
            for cond, code in over.items():
                fh.set_handler(ConditionCode[cond], FHC[code])
        suser, duser = RecUser(self.log, "S", self.src_fs), RecUser(self.log, "D", self.dst_fs)
        suser.scribble = duser.scribble = bool(c["scribble_user"])
        self.seq_provider = SeqCountProvider(c["seqw"])
        self.seq_provider.count = c["seq_start"]
        self.src_ctp, self.dst_ctp = _CTP(c["check_ivl_ms"]), _CTP(c["check_ivl_ms"])
        src = SourceHandler(
            LocalEntityCfg(self.src_id, indcfg(), sfh),
            suser,
            RemoteEntityCfgTable([self.rc_dst_at_src, self.rc_third_at_src]),
            self.src_ctp,
            self.seq_provider,
        )
        dst = DestHandler(
            LocalEntityCfg(self.dst_id, indcfg(), dfh),
            duser,
            RemoteEntityCfgTable([self.rc_src_at_dst]),
            self.dst_ctp,
        )
        self.S = Endpoint(self, "S", src, suser, sfh, self.src_fs)
        self.D = Endpoint(self, "D", dst, duser, dfh, self.dst_fs)

    def put_request(self) -> PutRequest:
        c = self.cfg
        mode = MODES[c["mode"]] if c["req_mode"] == "cfg" else MODES[c["req_mode"]]
        closure = c["closure"] if c["req_closure"] == "cfg" else c["req_closure"]
        msgs = None
        if c["msgs"] is not None:
            from .msgs import build_msgs

            msgs = build_msgs(c["msgs"])
        kw = {}
        if c["opts"]:
            from .msgs import build_opts

            kw = build_opts(c["opts"])
        if c["metadata_only"]:
            return PutRequest(self.dst_id, None, None, mode, closure, msgs_to_user=msgs, **kw)
        return PutRequest(self.dst_id, self.src_path, self.dst_req_path, mode, closure, msgs_to_user=msgs, **kw)

    def put(self) -> bool:
        # (reuse_last_request: the user hands the very same PutRequest object in again)
        req = self.last_request if (self.reuse_last_request and self.last_request is not None) else self.put_request()
        self.last_request = req
        return self.S.put(req)

    def put_to_third(self) -> bool:
        """A valid request towards the third entity (see _build_handlers); refused (False) while the sender is busy."""
        return self.S.put(PutRequest(self.third_id, self.src_path, self.dst_req_path, None, None))

    def both_idle(self) -> bool:
        return self.S.h.state == CfdpState.IDLE and self.D.h.state == CfdpState.IDLE

    def close(self) -> None:
        if self.sandbox is not None:
            shutil.rmtree(self.sandbox, ignore_errors=True)
            self.sandbox = None

    def __enter__(self):
        return self

    def __exit__(self, *a):
        self.close()


# ------------------------------------------------------------------------------------------------
# Fault plans
# ------------------------------------------------------------------------------------------------


class Plan:
    """Decides per emitted PDU (global emission index over both directions) what the link does.

    ``on_emit`` returns a list of (disposition, raw) with disposition one of
    'now' | ('delay', n) | 'quiet' | 'late' | 'race'; an empty list drops the PDU."""

    def __init__(self):
        self.applied: list[tuple] = []

    def on_emit(self, idx: int, item: dict[str, Any]) -> list[tuple]:
        return [("now", item["raw"])]

    @property
    def nfaults(self) -> int:
        return len(self.applied)


def flip_payload_bit(raw: bytes, d: dict[str, Any], rng: random.Random) -> bytes | None:
    """Flip one bit in the file data payload of a File Data PDU (the PDU CRC, if any, is left
    alone so that the receiving entity's PDU CRC check sees the corruption)."""
    if d.get("kind") != "FD" or d.get("dlen", 0) == 0:
        return None
    h = d["h"]
    start = h["hlen"] + (8 if h["large"] else 4)
    pos = start + rng.randrange(d["dlen"])
    b = bytearray(raw)
    b[pos] ^= 1 << rng.randrange(8)
    return bytes(b)


class EnumPlan(Plan):
    """faults: {emission index: kind}, kind in drop | dup | delay1 | delay2 | delay4 | quiet | late | race"""

    def __init__(self, faults: dict[int, str]):
        super().__init__()
        self.faults = {int(k): v for k, v in faults.items()}

    def on_emit(self, idx, item):
        k = self.faults.get(idx)
        raw = item["raw"]
        if k is None:
            return [("now", raw)]
        self.applied.append((idx, k, wire.short(item["d"]), item["side"]))
        if k == "drop":
            return []
        if k == "dup":
            return [("now", raw), ("now", raw)]
        if k.startswith("delay"):
            return [(("delay", int(k[5:])), raw)]
        if k == "quiet":
            return [("quiet", raw)]
        if k == "late":
            return [("late", raw)]
        if k == "race":
            return [("race", raw)]
        raise ValueError(k)


class RandomPlan(Plan):
    def __init__(self, seed: int, p: dict[str, float], max_faults: int | None = None, kinds_only: set[str] | None = None):
        super().__init__()
        self.rng = random.Random(seed)
        self.p = p
        self.max_faults = max_faults
        self.kinds_only = kinds_only

    def on_emit(self, idx, item):
        raw = item["raw"]
        if self.max_faults is not None and len(self.applied) >= self.max_faults:
            return [("now", raw)]
        if self.kinds_only is not None and item["d"].get("kind") not in self.kinds_only:
            return [("now", raw)]
        r = self.rng.random()
        acc = 0.0
        for k in ("drop", "dup", "delay", "quiet", "late", "race", "flip"):
            acc += self.p.get(k, 0.0)
            if r < acc:
                break
        else:
            return [("now", raw)]
        if k == "flip":
            nr = flip_payload_bit(raw, item["d"], self.rng)
            if nr is None:
                return [("now", raw)]
            self.applied.append((idx, "flip", wire.short(item["d"]), item["side"]))
            return [("now", nr)]
        if k == "delay":
            n = self.rng.choice([1, 2, 4, 7])
            self.applied.append((idx, f"delay{n}", wire.short(item["d"]), item["side"]))
            return [(("delay", n), raw)]
        self.applied.append((idx, k, wire.short(item["d"]), item["side"]))
        if k == "drop":
            return []
        if k == "dup":
            return [("now", raw), ("now", raw)]
        return [(k, raw)]


# ------------------------------------------------------------------------------------------------
# The runner
# ------------------------------------------------------------------------------------------------


class InternalError(Exception):
    """A non protocol exception escaped from a public handler call."""

    def __init__(self, side: str, exc: BaseException):
        super().__init__(f"{side}: {type(exc).__name__}: {exc}")
        self.side = side
        self.exc = exc


class Runner:
    def __init__(
        self,
        world: World,
        plan: Plan | None = None,
        pacing: dict[str, int] | None = None,
        max_rounds: int = 4000,
        max_expiries: int = 60,
        actions: dict[int, list] | None = None,
        drift_ms: tuple[int, int] | None = None,
    ):
        self.w = world
        # drift_ms = (seed, max): before every handler call up to max ms of virtual time may pass (the entities are slow, nothing is lost)
        self.drift = None if drift_ms is None else (random.Random(drift_ms[0]), drift_ms[1])
        self.drifted_ms = 0
        self.plan = plan or Plan()
        self.plan.runner = self  # (a plan may look at the run so far, e.g. the number of timer expiries)
        self.pacing = {"src_calls": 1, "dst_calls": 1, "dst_idle": 0, "src_idle": 0}
        if pacing:
            self.pacing.update(pacing)
        self.max_rounds = max_rounds
        self.max_expiries = max_expiries
        self.actions = actions or {}
        self.refused_puts = 0
        self.s2d: list[bytes] = []
        self.d2s: list[bytes] = []
        self.held: list[list] = []  # [disposition, direction, raw]
        self.emit_idx = 0
        self.expiries = 0
        self.rounds = 0
        self.proto_exc: list[tuple] = []
        self.steps_seen: set[tuple[str, str]] = set()
        self.delivered = 0
        self.unparsable = 0
        self.shell_acks = 0
        self.outcome: str | None = None
        self.progress_flag = False

    # -- link ----------------------------------------------------------------------------------
    def _wire(self, direction: str) -> list[bytes]:
        return self.s2d if direction == "s2d" else self.d2s

    def flush(self) -> None:
        for ep, direction in ((self.w.S, "s2d"), (self.w.D, "d2s")):
            if not ep.outbox:
                continue
            items, ep.outbox = ep.outbox, []
            for it in items:
                self.progress_flag = True
                if it["raw"] is None:
                    self.w.log.add("link", ep.side, what="unpackable_pdu_dropped", seq_tx=it["seq"])
                    self.emit_idx += 1
                    continue
                for disp, raw in self.plan.on_emit(self.emit_idx, it):
                    if disp == "now":
                        self._wire(direction).append(raw)
                    else:
                        self.held.append([disp, direction, raw])
                self.emit_idx += 1

    def shell_emit(self, side: str, pdu) -> None:
        """PDU produced by the entity shell (not by a handler): goes through the plan as well."""
        raw = bytes(pdu.pack())
        d = wire.describe(raw)
        ev = self.w.log.add("tx_shell", side, raw=raw, d=d)
        ep = self.w.S if side == "S" else self.w.D
        ep.outbox.append({"raw": raw, "d": d, "seq": ev["seq"], "side": side})
        self.shell_acks += 1

    def _tick_delays(self) -> None:
        for h in list(self.held):
            if isinstance(h[0], tuple):
                n = h[0][1] - 1
                if n <= 0:
                    self._wire(h[1]).append(h[2])
                    self.held.remove(h)
                else:
                    h[0] = ("delay", n)

    def _release(self, which: str) -> bool:
        rel = False
        for h in list(self.held):
            if h[0] == which or (which == "quiet" and isinstance(h[0], tuple)):
                self._wire(h[1]).append(h[2])
                self.held.remove(h)
                rel = True
        return rel

    # -- deliveries (entity shell) -----------------------------------------------------------------
    def deliver(self, direction: str) -> None:
        q = self._wire(direction)
        raw = q.pop(0)
        self.progress_flag = True
        self.delivered += 1
        self._tick_delays()
        ep = self.w.D if direction == "s2d" else self.w.S
        d = wire.describe(raw)
        try:
            pdu = wire.parse(raw)
        except wire.WireError as e:
            self.unparsable += 1
            self.w.log.add("link", ep.side, what="undeliverable", error=str(e), d=d)
            return
        t = wire.tid_of_raw(raw)
        self.w.log.add("rx", ep.side, d=d, raw=raw)
        if t in ep.closed:
            if direction == "s2d" and d["kind"] == "EOF":
                self.shell_emit("D", acknowledge_inactive_eof_pdu(pdu, TransactionStatus.TERMINATED))
            elif direction == "d2s" and d["kind"] == "FIN":
                conf = copy.copy(pdu.pdu_header.pdu_conf)
                self.shell_emit(
                    "S", AckPdu(conf, DirectiveType.FINISHED_PDU, pdu.condition_code, TransactionStatus.TERMINATED)
                )
            else:
                self.w.log.add("link", ep.side, what="closed_tid_dropped", d=d)
            return
        if ep.cur_tid is not None and (ep.cur_tid[0], ep.cur_tid[2]) != t:
            self.w.log.add("link", ep.side, what="foreign_tid_dropped", d=d)
            return
        was_idle = ep.h.state == CfdpState.IDLE
        n_exc = len(self.proto_exc)
        self.call_sm(ep, pdu, d)
        if was_idle and ep.h.state == CfdpState.IDLE and len(self.proto_exc) == n_exc:
            # an idle handler accepted the PDU and is idle again: the transaction was started and closed within this call (metadata-only
            # transfer, abandonment).  The entity knows the transaction id from the PDU it delivered.
            ep.closed.add(t)

    def call_sm(self, ep: Endpoint, pdu=None, d=None) -> None:
        desc = None if d is None else {k: v for k, v in d.items() if k not in ("data", "h")}
        self._drift()
        try:
            ep.sm(pdu, desc)
        except PROTO_EXC as e:
            self.proto_exc.append((ep.side, type(e).__name__, None if d is None else d.get("kind")))
        except Exception as e:  # noqa: BLE001
            raise InternalError(ep.side, e) from e
        self.steps_seen.add((self.w.S.h.step.name, self.w.D.h.step.name))

    # -- main loop --------------------------------------------------------------------------------
    def quiescent(self) -> bool:
        return self.w.both_idle() and not self.s2d and not self.d2s and not self.held and not self.w.S.outbox and not self.w.D.outbox

    def do_actions(self) -> None:
        for act in self.actions.get(self.rounds, []):
            self.apply_action(act)

    def apply_action(self, act) -> None:
        kind = act[0]
        if kind == "cancel":
            ep = self.w.S if act[1] == "S" else self.w.D
            tid = ep.h.transaction_id
            if act[2:] and act[2] == "wrong":
                tid = TransactionId(self.w.src_id, ByteFieldGenerator.from_int(self.w.cfg["seqw"] // 8, 200))
            if tid is None:
                tid = TransactionId(self.w.src_id, ByteFieldGenerator.from_int(self.w.cfg["seqw"] // 8, 201))
            try:
                res = ep.cancel(tid)
            except PROTO_EXC as e:
                self.proto_exc.append((ep.side, type(e).__name__, "cancel"))
                res = None
            except Exception as e:  # noqa: BLE001
                raise InternalError(ep.side, e) from e
            self.w.log.add("action", ep.side, what="cancel", res=res, wrong=bool(act[2:] and act[2] == "wrong"))
        elif kind == "tick":
            self.advance_clock()
        elif kind == "reset":
            # the user gives the transaction up: reset() on one handler (PDUs already queued are still collected afterwards)
            ep = self.w.S if act[1] == "S" else self.w.D
            try:
                ep.reset()
                ep.drain()
            except Exception as e:  # noqa: BLE001
                raise InternalError(ep.side, e) from e
            self.w.log.add("action", ep.side, what="reset", res=None)
        elif kind == "put_third":
            # the user issues a valid put request towards the third entity while the sender is busy: refused, nothing else happens
            if self.w.S.h.state == CfdpState.BUSY:
                try:
                    res = self.w.put_to_third()
                except PROTO_EXC as e:
                    self.proto_exc.append(("S", type(e).__name__, "put_third"))
                    res = type(e).__name__
                except Exception as e:  # noqa: BLE001
                    raise InternalError("S", e) from e
                self.w.log.add("action", "S", what="put_third", res=res)
                self.refused_puts += 1
        else:
            raise ValueError(act)

    def advance_clock(self) -> None:
        vclock.use(self.w.clock)
        ms = vclock.advance_to_next_expiry()
        self.expiries += 1
        self.w.log.add("clock", "-", advanced_ms=ms, now=vclock.now_ms(), n=self.expiries)

    def _drift(self) -> None:
        if self.drift is not None:
            ms = self.drift[0].choice([0, 0, 0, self.drift[1] // 10, self.drift[1]])
            if ms:
                vclock.use(self.w.clock)
                vclock.advance(ms)
                self.drifted_ms += ms

    def round(self) -> None:
        p = self.pacing
        self.do_actions()
        self.flush()
        for _ in range(p["dst_calls"]):
            if self.s2d:
                self.deliver("s2d")
            else:
                self.call_sm(self.w.D)
            self.flush()
        for _ in range(p["dst_idle"]):
            self.call_sm(self.w.D)
            self.flush()
        for _ in range(p["src_calls"]):
            if self.d2s:
                self.deliver("d2s")
            else:
                self.call_sm(self.w.S)
            self.flush()
        for _ in range(p["src_idle"]):
            self.call_sm(self.w.S)
            self.flush()

    def run(self) -> str:
        for _ in self.steps():
            pass
        return self.outcome

    def steps(self):
        """The run loop as an iterator (one scheduler round per step) so that several worlds can be stepped in alternation (C11)."""
        late_pending = False
        while self.rounds < self.max_rounds:
            vclock.use(self.w.clock)
            self.progress_flag = False
            self.round()
            self.rounds += 1
            if late_pending:
                late_pending = False
                self._release("late")
            if self.quiescent():
                self.outcome = "done"
                return
            if not self.progress_flag:
                if any(h[0] == "quiet" or isinstance(h[0], tuple) for h in self.held):
                    self._release("quiet")
                    yield
                    continue
                if self.expiries >= self.max_expiries:
                    self.outcome = "stuck"
                    return
                self.advance_clock()
                # 'race': the PDU reaches the handler in the very call which detects the timer expiry (PDU and timer are looked at in one
                # call); 'late': the expiry is serviced by a call of its own first
                self._release("race")
                if any(h[0] == "late" for h in self.held):
                    late_pending = True
            yield
        self.outcome = "maxrounds"


def other_entity_configures_fault_handlers(table: dict[str, str]) -> RecFaultHandler:
    """Another entity in the same process sets up its *own* fault handler object (it must not influence anybody else's)."""
    fh = RecFaultHandler(EventLog(), "X")
    for cond, code in table.items():
        fh.set_handler(ConditionCode[cond], FHC[code])
    return fh


def finished_events(w: World, side: str) -> list:
    return w.log.of("ind_finished", side)


SUCCESS = ("NO_ERROR", "DATA_COMPLETE", "FILE_RETAINED")


def is_success_fin(fin: tuple) -> bool:
    return tuple(fin[:3]) == SUCCESS


def give_up_undrained(w, stop_kind: str = "EOF", **runner_kw) -> bool:
    """The user starts a transfer and gives it up in the middle with reset() on both handlers: the transfer runs until a PDU of kind
    ``stop_kind`` is next on the forward link, each side then makes one more call whose PDUs are *not* retrieved, and is reset. What is
    retrieved afterwards is thrown away. Returns whether the stop point was reached. The handlers are IDLE afterwards."""
    pr = Runner(w, max_expiries=30, max_rounds=2000, **runner_kw)
    w.put()
    reached = False
    for _ in pr.steps():
        if pr.s2d and wire.kind_of(pr.s2d[0]) == stop_kind:
            reached = True
            break
    for ep, q in ((w.D, pr.s2d), (w.S, pr.d2s)):
        ep.autodrain = False
        try:
            try:
                if q:
                    raw = q.pop(0)
                    ep.sm(wire.parse(raw), {"kind": wire.kind_of(raw)})
                else:
                    ep.sm()
            except Exception:  # noqa: BLE001
                pass
            ep.reset()
        finally:
            ep.autodrain = True
        ep.drain()
    for ep in (w.S, w.D):
        if ep.h.state.name != "IDLE":
            ep.reset()
            ep.drain()
        ep.outbox.clear()
    return reached
