"""Construction of arbitrary well-formed PDUs (as bytes) for the scripted-peer workloads."""
from __future__ import annotations

from typing import Any

from spacepackets.cfdp import (
    ChecksumType,
    ConditionCode,
    CrcFlag,
    Direction,
    EntityIdTlv,
    LargeFileFlag,
    PduConfig,
    TransmissionMode,
)
from spacepackets.cfdp.pdu import (
    AckPdu,
    DirectiveType,
    EofPdu,
    FileDataPdu,
    FinishedPdu,
    KeepAlivePdu,
    MetadataParams,
    MetadataPdu,
    NakPdu,
    PromptPdu,
    TransactionStatus,
)
from spacepackets.cfdp.pdu.file_data import FileDataParams
from spacepackets.cfdp.pdu.finished import DeliveryCode, FileStatus, FinishedParams
from spacepackets.cfdp.pdu.prompt import ResponseRequired
from spacepackets.util import ByteFieldGenerator

from .world import CKS

KINDS = ["MD", "FD", "EOF", "FIN", "ACK_EOF", "ACK_FIN", "NAK", "KA", "PROMPT"]


def conf(src: int, dst: int, seq: int, idw: int = 2, seqw: int = 2, mode: str = "ack", crc: bool = False, large: bool = False) -> PduConfig:
    return PduConfig(
        source_entity_id=ByteFieldGenerator.from_int(idw, src),
        dest_entity_id=ByteFieldGenerator.from_int(idw, dst),
        transaction_seq_num=ByteFieldGenerator.from_int(seqw, seq),
        trans_mode=TransmissionMode.ACKNOWLEDGED if mode == "ack" else TransmissionMode.UNACKNOWLEDGED,
        file_flag=LargeFileFlag.LARGE if large else LargeFileFlag.NORMAL,
        crc_flag=CrcFlag.WITH_CRC if crc else CrcFlag.NO_CRC,
    )


def build(kind: str, c: PduConfig, f: dict[str, Any] | None = None):
    """Builds the spacepackets PDU object of the given kind with fields f (defaults are benign)."""
    f = f or {}
    if kind == "MD":
        params = MetadataParams(
            closure_requested=f.get("closure", False),
            checksum_type=CKS[f.get("cks", "crc32")] if isinstance(f.get("cks", "crc32"), str) else f["cks"],
            file_size=f.get("size", 0),
            source_file_name=f.get("src_name", "src.bin"),
            dest_file_name=f.get("dst_name", "dst.bin"),
        )
        return MetadataPdu(c, params, f.get("options"))
    if kind == "FD":
        return FileDataPdu(c, FileDataParams(file_data=f.get("data", b"x"), offset=f.get("offset", 0), segment_metadata=None))
    if kind == "EOF":
        fl = f.get("fault_loc")
        return EofPdu(
            c,
            file_checksum=f.get("cksum", b"\0\0\0\0"),
            file_size=f.get("size", 0),
            condition_code=ConditionCode[f.get("cond", "NO_ERROR")],
            fault_location=None if fl is None else EntityIdTlv(fl),
        )
    if kind == "FIN":
        fl = f.get("fault_loc")
        params = FinishedParams(
            condition_code=ConditionCode[f.get("cond", "NO_ERROR")],
            delivery_code=DeliveryCode[f.get("delivery", "DATA_COMPLETE")],
            file_status=FileStatus[f.get("fstatus", "FILE_RETAINED")],
            fault_location=None if fl is None else EntityIdTlv(fl),
        )
        return FinishedPdu(c, params)
    if kind in ("ACK_EOF", "ACK_FIN"):
        return AckPdu(
            c,
            DirectiveType.EOF_PDU if kind == "ACK_EOF" else DirectiveType.FINISHED_PDU,
            ConditionCode[f.get("cond", "NO_ERROR")],
            TransactionStatus[f.get("status", "ACTIVE")],
        )
    if kind == "NAK":
        return NakPdu(c, f.get("scope", (0, 0))[0], f.get("scope", (0, 0))[1], [tuple(r) for r in f.get("reqs", [])])
    if kind == "KA":
        return KeepAlivePdu(c, f.get("progress", 0))
    if kind == "PROMPT":
        return PromptPdu(c, ResponseRequired.KEEP_ALIVE if f.get("keep_alive", True) else ResponseRequired.NAK)
    raise ValueError(kind)


def raw(kind: str, c: PduConfig, f: dict[str, Any] | None = None, towards_sender: bool | None = None) -> bytes:
    """Packed bytes; ``towards_sender`` overrides the direction flag the constructor forces."""
    pdu = build(kind, c, f)
    if towards_sender is not None:
        pdu.pdu_header.direction = Direction.TOWARDS_SENDER if towards_sender else Direction.TOWARDS_RECEIVER
    return bytes(pdu.pack())
