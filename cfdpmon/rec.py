"""Recorders supplied by the harness at the API boundary of the library.

All of them stamp one shared, monotone sequence counter (``EventLog``) so that the order of
indications, fault callbacks, filestore effects, PDU enqueue events and API call/return events is
recovered exactly, also *inside* a single ``state_machine`` call.
"""
from __future__ import annotations

import copy
import io
import os
import struct
from collections import deque
from pathlib import Path
from typing import Any, BinaryIO, Callable

from spacepackets.cfdp.defs import NULL_CHECKSUM_U32, ChecksumType
from spacepackets.cfdp.tlv import FilestoreResponseStatusCode

from cfdppy.filestore import NativeFilestore, VirtualFilestore
from cfdppy.mib import DefaultFaultHandlerBase
from cfdppy.user import CfdpUserBase

from . import audit, models


class Event(dict):
    """dict with attribute access; keys: seq, kind, side, ... """

    __getattr__ = dict.get


class EventLog:
    def __init__(self):
        self.events: list[Event] = []
        self.seq = 0
        self.observers: list[Callable[[Event], None]] = []

    def add(self, kind: str, side: str, **data: Any) -> Event:
        ev = Event(seq=self.seq, kind=kind, side=side, **data)
        self.seq += 1
        self.events.append(ev)
        for ob in self.observers:
            ob(ev)
        return ev

    def of(self, kind: str, side: str | None = None) -> list[Event]:
        return [e for e in self.events if e["kind"] == kind and (side is None or e["side"] == side)]


def tid_key(tid) -> tuple | None:
    if tid is None:
        return None
    return (tid.source_id.value, tid.source_id.byte_len, tid.seq_num.value, tid.seq_num.byte_len)


def fin_tuple(fp) -> tuple:
    """(condition, delivery, file status, fault location value|None) of FinishedParams."""
    fl = fp.fault_location
    flv = None
    if fl is not None:
        try:
            flv = int.from_bytes(bytes(fl.value), "big")
        except Exception:  # noqa: BLE001
            flv = repr(fl)
    cc = fp.condition_code
    return (
        getattr(cc, "name", cc),
        getattr(fp.delivery_code, "name", fp.delivery_code),
        getattr(fp.file_status, "name", fp.file_status),
        flv,
    )


class RecUser(CfdpUserBase):
    def __init__(self, log: EventLog, side: str, vfs: VirtualFilestore):
        super().__init__(vfs)
        self.log = log
        self.side = side
        # a user who treats the parameter objects handed to its callbacks as its own: after recording, every attribute of the object is
        # overwritten (re-bound; objects nested inside are left alone).  What the handler does afterwards must not depend on it.
        self.scribble = False
        self.scribbled = 0

    def _scribble(self, obj):
        if not self.scribble:
            return
        for name in list(getattr(obj, "__dict__", {}) or getattr(obj, "__dataclass_fields__", {})):
            try:
                old = getattr(obj, name)
                setattr(obj, name, (old + 4242) if isinstance(old, int) and not isinstance(old, bool) else None)
                self.scribbled += 1
            except Exception:  # noqa: BLE001  (frozen objects cannot be edited: fine)
                pass

    def transaction_indication(self, p):
        self.log.add(
            "ind_transaction",
            self.side,
            tid=tid_key(p.transaction_id),
            orig=tid_key(p.originating_transaction_id),
        )
        self._scribble(p)

    def eof_sent_indication(self, transaction_id):
        self.log.add("ind_eof_sent", self.side, tid=tid_key(transaction_id))

    def transaction_finished_indication(self, params):
        self.log.add(
            "ind_finished",
            self.side,
            tid=tid_key(params.transaction_id),
            fin=fin_tuple(params.finished_params),
        )
        self._scribble(params)

    def metadata_recv_indication(self, params):
        msgs = None
        if params.msgs_to_user is not None:
            msgs = [bytes(m.pack()) for m in params.msgs_to_user]
        self.log.add(
            "ind_metadata_recv",
            self.side,
            tid=tid_key(params.transaction_id),
            source_id=(params.source_id.value, params.source_id.byte_len),
            file_size=params.file_size,
            source_file_name=params.source_file_name,
            dest_file_name=params.dest_file_name,
            msgs=msgs,
        )
        self._scribble(params)

    def file_segment_recv_indication(self, params):
        self.log.add(
            "ind_file_segment_recv",
            self.side,
            tid=tid_key(params.transaction_id),
            offset=params.offset,
            length=params.length,
        )
        self._scribble(params)

    def report_indication(self, transaction_id, status_report):
        self.log.add("ind_report", self.side, tid=tid_key(transaction_id))

    def suspended_indication(self, transaction_id, cond_code):
        self.log.add("ind_suspended", self.side, tid=tid_key(transaction_id))

    def resumed_indication(self, transaction_id, progress):
        self.log.add("ind_resumed", self.side, tid=tid_key(transaction_id))

    def fault_indication(self, transaction_id, cond_code, progress):
        self.log.add("ind_fault", self.side, tid=tid_key(transaction_id), cond=cond_code.name)

    def abandoned_indication(self, transaction_id, cond_code, progress):
        self.log.add("ind_abandoned", self.side, tid=tid_key(transaction_id), cond=cond_code.name)

    def eof_recv_indication(self, transaction_id):
        self.log.add("ind_eof_recv", self.side, tid=tid_key(transaction_id))


class RecFaultHandler(DefaultFaultHandlerBase):
    def __init__(self, log: EventLog, side: str):
        super().__init__()
        self.log = log
        self.side = side

    def _cb(self, which, tid, cond, progress):
        self.log.add(
            "fh",
            self.side,
            which=which,
            tid=tid_key(tid),
            cond=getattr(cond, "name", cond),
            progress=progress,
        )

    def notice_of_suspension_cb(self, transaction_id, cond, progress):
        self._cb("suspend", transaction_id, cond, progress)

    def notice_of_cancellation_cb(self, transaction_id, cond, progress):
        self._cb("cancel", transaction_id, cond, progress)

    def abandoned_cb(self, transaction_id, cond, progress):
        self._cb("abandon", transaction_id, cond, progress)

    def ignore_cb(self, transaction_id, cond, progress):
        self._cb("ignore", transaction_id, cond, progress)


# ------------------------------------------------------------------------------------------------
# Filestores
# ------------------------------------------------------------------------------------------------


class MemFilestore(VirtualFilestore):
    """Purely in-memory VirtualFilestore with the documented semantics of the interface.

    Paths are plain keys (posix strings); they never touch the host.  Directories are a set.
    """

    DIR = object()

    def __init__(self):
        self.files: dict[str, bytearray] = {}
        self.dirs: set[str] = set()
        self.claimed_sizes: dict[str, int] = {}

    @staticmethod
    def k(p) -> str:
        # (a file system without symbolic links: '..' components are resolved lexically)
        return os.path.normpath(Path(p).as_posix())

    # -- helpers used by the harness -------------------------------------------------------
    def put(self, p, data: bytes) -> None:
        self.files[self.k(p)] = bytearray(data)

    def get(self, p) -> bytes | None:
        v = self.files.get(self.k(p))
        return None if v is None else bytes(v)

    def mkdir(self, p) -> None:
        self.dirs.add(self.k(p))

    def tree(self) -> dict[str, Any]:
        t: dict[str, Any] = {d: "DIR" for d in self.dirs}
        t.update({f: bytes(v) for f, v in self.files.items()})
        return t

    # -- interface ---------------------------------------------------------------------------
    def read_data(self, file, offset, read_len=None):
        k = self.k(file)
        if k not in self.files:
            raise FileNotFoundError(file)
        if offset is None:
            offset = 0
        data = self.files[k]
        if read_len is None:
            read_len = len(data)
        return bytes(data[offset : offset + read_len])

    def read_from_opened_file(self, bytes_io: BinaryIO, offset: int, read_len: int) -> bytes:
        bytes_io.seek(offset)
        return bytes_io.read(read_len)

    def is_directory(self, path) -> bool:
        return self.k(path) in self.dirs

    def filename_from_full_path(self, path):
        return Path(path).name

    def file_exists(self, path) -> bool:
        k = self.k(path)
        return k in self.files or k in self.dirs

    def truncate_file(self, file) -> None:
        k = self.k(file)
        if k not in self.files:
            raise FileNotFoundError(file)
        self.files[k] = bytearray()

    def file_size(self, file) -> int:
        k = self.k(file)
        if k in self.claimed_sizes:
            return self.claimed_sizes[k]
        if k not in self.files:
            raise FileNotFoundError(file)
        return len(self.files[k])

    def write_data(self, file, data: bytes, offset) -> None:
        k = self.k(file)
        if k not in self.files:
            raise FileNotFoundError(file)
        buf = self.files[k]
        if offset is None:
            offset = 0
        if offset + len(data) > (1 << 26):
            # an in-memory store cannot hold what a 64 bit offset may name; it refuses, as a full disk would
            raise PermissionError(f"{file}: offset {offset} beyond the capacity of the in-memory filestore")
        if offset > len(buf):
            buf.extend(b"\0" * (offset - len(buf)))
        buf[offset : offset + len(data)] = data

    def create_file(self, file):
        k = self.k(file)
        if k in self.files or k in self.dirs:
            return FilestoreResponseStatusCode.CREATE_NOT_ALLOWED
        self.files[k] = bytearray()
        return FilestoreResponseStatusCode.CREATE_SUCCESS

    def delete_file(self, file):
        k = self.k(file)
        if k in self.dirs:
            return FilestoreResponseStatusCode.DELETE_NOT_ALLOWED
        if k not in self.files:
            return FilestoreResponseStatusCode.DELETE_FILE_DOES_NOT_EXIST
        del self.files[k]
        return FilestoreResponseStatusCode.DELETE_SUCCESS

    def rename_file(self, _old_file, _new_file):
        return FilestoreResponseStatusCode.RENAME_NOT_PERFORMED

    def replace_file(self, _replaced_file, _source_file):
        return FilestoreResponseStatusCode.REPLACE_NOT_PERFORMED

    def create_directory(self, _dir_name):
        return FilestoreResponseStatusCode.CREATE_DIR_CAN_NOT_BE_CREATED

    def remove_directory(self, _dir_name, recursive=False):
        return FilestoreResponseStatusCode.REMOVE_DIR_NOT_PERFORMED

    def list_directory(self, _dir_name, _file_name, _recursive=False):
        return FilestoreResponseStatusCode.NOT_PERFORMED

    def calculate_checksum(self, checksum_type, file_path, size_to_verify, segment_len=4096):
        if checksum_type == ChecksumType.NULL_CHECKSUM:
            return NULL_CHECKSUM_U32
        k = self.k(file_path)
        if k not in self.files:
            raise FileNotFoundError(file_path)
        if segment_len == 0:
            raise ValueError("segment length can not be 0")
        name = {
            ChecksumType.MODULAR: "modular",
            ChecksumType.CRC_32: "crc32",
            ChecksumType.CRC_32C: "crc32c",
        }.get(checksum_type)
        if name is None:
            # like the native filestore: a checksum type which is not implemented is reported with the library's own exception
            from cfdppy.exceptions import ChecksumNotImplemented

            raise ChecksumNotImplemented(checksum_type)
        return models.checksum(name, bytes(self.files[k][:size_to_verify]))


_MUTATING = {
    "truncate_file",
    "write_data",
    "create_file",
    "delete_file",
    "rename_file",
    "replace_file",
    "create_directory",
    "remove_directory",
    "list_directory",
}


class RecFilestore(VirtualFilestore):
    """Recording (and fault injecting) proxy around a real filestore object.

    ``fault(op, args, nth)`` may return an exception instance which is raised *instead* of
    performing the operation (a rejected write must not take effect).
    """

    def __init__(self, inner: VirtualFilestore, log: EventLog, side: str):
        self.inner = inner
        self.log = log
        self.side = side
        self.fault: Callable[[str, tuple, int], BaseException | None] | None = None
        self.counts: dict[str, int] = {}
        self.in_call = 0

    def __len__(self) -> int:
        # a container-like filestore object: as many items as the in-memory store holds files (0 for a receiver's store before its first
        # transfer, so the object is falsy); always 1 for the library's own filestore class
        return len(self.inner.files) if isinstance(self.inner, MemFilestore) else 1

    def _do(self, op: str, *args, **kw):
        n = self.counts.get(op, 0)
        self.counts[op] = n + 1
        info: dict[str, Any] = {"op": op, "nth": n}
        if args:
            a0 = args[0]
            info["path"] = Path(a0).as_posix() if isinstance(a0, (str, os.PathLike)) else None
        if op == "write_data":
            info["offset"] = args[2] if len(args) > 2 else kw.get("offset")
            info["length"] = len(args[1])
        elif op == "read_data":
            info["offset"] = args[1] if len(args) > 1 else kw.get("offset")
            info["length"] = args[2] if len(args) > 2 else kw.get("read_len")
        elif op == "calculate_checksum":
            info["path"] = Path(args[1]).as_posix()
            info["size"] = args[2] if len(args) > 2 else kw.get("size_to_verify")
            info["ctype"] = args[0].name
        elif op in ("rename_file", "replace_file"):
            info["path2"] = Path(args[1]).as_posix()
        exc = self.fault(op, args, n) if self.fault is not None else None
        if exc is not None:
            self.log.add("fs", self.side, outcome="injected:" + type(exc).__name__, **info)
            raise exc
        self.in_call += 1
        try:
            with audit.allow():  # the filestore object under test is the one place where host access is legitimate
                res = getattr(self.inner, op)(*args, **kw)
        except BaseException as e:  # noqa: BLE001
            self.log.add("fs", self.side, outcome="raised:" + type(e).__name__, **info)
            raise
        finally:
            self.in_call -= 1
        out = res
        if isinstance(res, (bytes, bytearray)):
            out = ("bytes", len(res))
        elif isinstance(res, FilestoreResponseStatusCode):
            out = res.name
        self.log.add("fs", self.side, outcome="ok", result=out, mutating=op in _MUTATING, **info)
        return res

    def read_data(self, file, offset, read_len=None):
        return self._do("read_data", file, offset, read_len)

    def read_from_opened_file(self, bytes_io, offset, read_len):
        return self._do("read_from_opened_file", bytes_io, offset, read_len)

    def is_directory(self, path):
        return self._do("is_directory", path)

    def filename_from_full_path(self, path):
        return self._do("filename_from_full_path", path)

    def file_exists(self, path):
        return self._do("file_exists", path)

    def truncate_file(self, file):
        return self._do("truncate_file", file)

    def file_size(self, file):
        return self._do("file_size", file)

    def write_data(self, file, data, offset):
        return self._do("write_data", file, data, offset)

    def create_file(self, file):
        return self._do("create_file", file)

    def delete_file(self, file):
        return self._do("delete_file", file)

    def rename_file(self, _old_file, _new_file):
        return self._do("rename_file", _old_file, _new_file)

    def replace_file(self, _replaced_file, _source_file):
        return self._do("replace_file", _replaced_file, _source_file)

    def create_directory(self, _dir_name):
        return self._do("create_directory", _dir_name)

    def remove_directory(self, _dir_name, recursive=False):
        return self._do("remove_directory", _dir_name, recursive)

    def list_directory(self, _dir_name, _file_name, _recursive=False):
        return self._do("list_directory", _dir_name, _file_name, _recursive)

    def calculate_checksum(self, checksum_type, file_path, size_to_verify, segment_len=4096):
        return self._do("calculate_checksum", checksum_type, file_path, size_to_verify, segment_len)


class RecQueue(deque):
    """Replacement for a handler's outbound deque: logs every enqueue with the packed bytes at
    enqueue time (PDUs alias mutable handler state, see DESIGN 1)."""

    def __init__(self, log: EventLog, side: str):
        super().__init__()
        self._log = log
        self._side = side

    def append(self, holder) -> None:  # type: ignore[override]
        raw = None
        err = None
        try:
            raw = bytes(holder.pack())
        except Exception as e:  # noqa: BLE001
            err = f"{type(e).__name__}: {e}"
        holder.__dict__["_enq_raw"] = raw
        ev = self._log.add("enq", self._side, raw=raw, pack_error=err, qlen_before=len(self))
        holder.__dict__["_enq_seq"] = ev["seq"]
        super().append(holder)
