"""Small independent reference models used by the oracles (no cfdppy code is imported here)."""
from __future__ import annotations

import zlib

# ------------------------------------------------------------------------------------------------
# Checksums
# ------------------------------------------------------------------------------------------------

_CRC32C_TABLE: list[int] = []


def _crc32c_table() -> list[int]:
    if not _CRC32C_TABLE:
        poly = 0x82F63B78  # 0x1EDC6F41 reflected
        for i in range(256):
            c = i
            for _ in range(8):
                c = (c >> 1) ^ poly if c & 1 else c >> 1
            _CRC32C_TABLE.append(c)
    return _CRC32C_TABLE


def crc32c(data: bytes) -> int:
    t = _crc32c_table()
    c = 0xFFFFFFFF
    for b in data:
        c = t[(c ^ b) & 0xFF] ^ (c >> 8)
    return c ^ 0xFFFFFFFF


def crc32c_bitwise(data: bytes) -> int:
    """Bit-at-a-time version (second, structurally different implementation)."""
    c = 0xFFFFFFFF
    for b in data:
        c ^= b
        for _ in range(8):
            c = (c >> 1) ^ 0x82F63B78 if c & 1 else c >> 1
    return c ^ 0xFFFFFFFF


def modular(data: bytes) -> int:
    s = 0
    for i in range(0, len(data), 4):
        w = data[i : i + 4]
        w = w + b"\0" * (4 - len(w))
        s += int.from_bytes(w, "big")
    return s % (1 << 32)


def checksum(kind: str, data: bytes) -> bytes:
    if kind == "null":
        return b"\0\0\0\0"
    if kind == "crc32":
        return (zlib.crc32(data) & 0xFFFFFFFF).to_bytes(4, "big")
    if kind == "crc32c":
        return crc32c(data).to_bytes(4, "big")
    if kind == "modular":
        return modular(data).to_bytes(4, "big")
    raise ValueError(kind)


# ------------------------------------------------------------------------------------------------
# Interval sets over the integers, half open [a, b)
# ------------------------------------------------------------------------------------------------


class IntervalSet:
    def __init__(self, ranges=()):
        self.r: list[tuple[int, int]] = []
        for a, b in ranges:
            self.add(a, b)

    def copy(self) -> IntervalSet:
        n = IntervalSet()
        n.r = list(self.r)
        return n

    def add(self, a: int, b: int) -> None:
        if b <= a:
            return
        out = []
        for x, y in self.r:
            if y < a or x > b:
                out.append((x, y))
            else:
                a, b = min(a, x), max(b, y)
        out.append((a, b))
        out.sort()
        self.r = out

    def remove(self, a: int, b: int) -> None:
        if b <= a:
            return
        out = []
        for x, y in self.r:
            if y <= a or x >= b:
                out.append((x, y))
            else:
                if x < a:
                    out.append((x, a))
                if y > b:
                    out.append((b, y))
        self.r = out

    def intersects(self, a: int, b: int) -> bool:
        return any(x < b and a < y for x, y in self.r) if b > a else False

    def contains(self, a: int, b: int) -> bool:
        if b <= a:
            return True
        return any(x <= a and b <= y for x, y in self.r)

    def complement(self, lo: int, hi: int) -> IntervalSet:
        n = IntervalSet()
        cur = lo
        for x, y in self.r:
            if y <= lo:
                continue
            if x >= hi:
                break
            if x > cur:
                n.r.append((cur, min(x, hi)))
            cur = max(cur, y)
        if cur < hi:
            n.r.append((cur, hi))
        return n

    def size(self) -> int:
        return sum(y - x for x, y in self.r)

    def __eq__(self, other) -> bool:
        return isinstance(other, IntervalSet) and self.r == other.r

    def __repr__(self) -> str:
        return f"IS{self.r}"


# ------------------------------------------------------------------------------------------------
# PDU length arithmetic (CCSDS 727.0-B-5)
# ------------------------------------------------------------------------------------------------


def header_len(idw: int, seqw: int) -> int:
    return 4 + 2 * idw + seqw


def max_fd_payload(max_packet_len: int, idw: int, seqw: int, crc: bool, large: bool = False) -> int:
    """Largest file data payload fitting in a File Data PDU of at most max_packet_len bytes."""
    return max_packet_len - header_len(idw, seqw) - (8 if large else 4) - (2 if crc else 0)


def eof_len(idw: int, seqw: int, crc: bool, large: bool = False) -> int:
    return header_len(idw, seqw) + 1 + 1 + 4 + (8 if large else 4) + (2 if crc else 0)


def ack_len(idw: int, seqw: int, crc: bool) -> int:
    return header_len(idw, seqw) + 3 + (2 if crc else 0)


def nak_len(idw: int, seqw: int, crc: bool, nreq: int, large: bool = False) -> int:
    w = 8 if large else 4
    return header_len(idw, seqw) + 1 + 2 * w + 2 * w * nreq + (2 if crc else 0)


def sparse_write(buf: bytearray, offset: int, data: bytes) -> None:
    """The write model of C05: unwritten gaps read as zero bytes."""
    if offset > len(buf):
        buf.extend(b"\0" * (offset - len(buf)))
    buf[offset : offset + len(data)] = data


def crc16_ccitt_false(data: bytes) -> int:
    """PDU CRC of CCSDS 727.0-B-5 (CRC-16/CCITT-FALSE: poly 0x1021, init 0xFFFF, no reflection)."""
    if len(data) > 512:
        # long PDUs: binascii's C implementation of the same polynomial (cross-checked below 512 bytes by the bitwise loop)
        import binascii

        return binascii.crc_hqx(bytes(data), 0xFFFF)
    c = 0xFFFF
    for b in data:
        c ^= b << 8
        for _ in range(8):
            c = ((c << 1) ^ 0x1021) & 0xFFFF if c & 0x8000 else (c << 1) & 0xFFFF
    return c


def crafted_window(kind: str, data: bytes, off: int, target_diff: bytes) -> bytes | None:
    """Four replacement bytes for data[off:off+4] such that checksum(kind, changed data) == checksum(kind, data) XOR target_diff
    (CRCs are affine over GF(2): the 32 single-bit flips of the window give 32 difference vectors; Gaussian elimination picks the subset
    whose sum is the wanted difference).  None if the window cannot produce it."""
    assert 0 <= off and off + 4 <= len(data)
    base = int.from_bytes(checksum(kind, data), "big")
    vecs = []
    for bit in range(32):
        b = bytearray(data)
        b[off + bit // 8] ^= 1 << (bit % 8)
        vecs.append(int.from_bytes(checksum(kind, bytes(b)), "big") ^ base)
    # solve sum x_i vecs[i] == target
    target = int.from_bytes(target_diff, "big")
    rows = [(v, 1 << i) for i, v in enumerate(vecs)]
    pivots = []
    for col in reversed(range(32)):
        idx = next((j for j, (v, _) in enumerate(rows) if (v >> col) & 1), None)
        if idx is None:
            continue
        pv, pc = rows.pop(idx)
        rows = [((v ^ pv, c ^ pc) if (v >> col) & 1 else (v, c)) for v, c in rows]
        pivots.append((col, pv, pc))
    combo, t = 0, target
    for col, pv, pc in pivots:
        if (t >> col) & 1:
            t ^= pv
            combo ^= pc
    if t != 0:
        return None
    b = bytearray(data[off : off + 4])
    for bit in range(32):
        if (combo >> bit) & 1:
            b[bit // 8] ^= 1 << (bit % 8)
    return bytes(b)
