"""PDUs on the wire: bytes only.  Independent header decoder, parse shim, summaries."""
from __future__ import annotations

from typing import Any

from spacepackets.cfdp import ConditionCode
from spacepackets.cfdp.pdu import EofPdu
from spacepackets.cfdp.pdu.helper import PduFactory

DIRECTIVES = {0x04: "EOF", 0x05: "FIN", 0x06: "ACK", 0x07: "MD", 0x08: "NAK", 0x09: "PROMPT", 0x0C: "KA"}


def hdr(raw: bytes) -> dict[str, Any]:
    """Decode the fixed PDU header independently of spacepackets (CCSDS 727.0-B-5, 5.1)."""
    b0 = raw[0]
    idw = ((raw[3] >> 4) & 0x7) + 1
    seqw = (raw[3] & 0x7) + 1
    p = 4
    src = int.from_bytes(raw[p : p + idw], "big")
    p += idw
    seq = int.from_bytes(raw[p : p + seqw], "big")
    p += seqw
    dst = int.from_bytes(raw[p : p + idw], "big")
    p += idw
    return {
        "version": b0 >> 5,
        "file_data": bool(b0 & 0x10),
        "towards_sender": bool(b0 & 0x08),
        "unack": bool(b0 & 0x04),
        "crc": bool(b0 & 0x02),
        "large": bool(b0 & 0x01),
        "dlen": (raw[1] << 8) | raw[2],
        "segctrl": raw[3] >> 7,
        "idw": idw,
        "segmeta": (raw[3] >> 3) & 1,
        "seqw": seqw,
        "src": src,
        "seq": seq,
        "dst": dst,
        "hlen": p,
    }


def kind_of(raw: bytes) -> str:
    h = hdr(raw)
    if h["file_data"]:
        return "FD"
    code = raw[h["hlen"]]
    k = DIRECTIVES.get(code, f"DIR{code:#x}")
    if k == "ACK":
        acked = raw[h["hlen"] + 1] >> 4
        return "ACK_EOF" if acked == 0x04 else ("ACK_FIN" if acked == 0x05 else f"ACK_{acked:#x}")
    return k


def tid_of_raw(raw: bytes) -> tuple[int, int]:
    h = hdr(raw)
    return (h["src"], h["seq"])


class WireError(Exception):
    pass


def parse(raw: bytes):
    """bytes -> spacepackets PDU object, the way a receiving entity would do it.

    Applies the documented wire shim for spacepackets 0.26.1 (DESIGN 1): ``EofPdu.unpack`` leaves
    the condition code unshifted.  Raises WireError if the dependency refuses the bytes (PDU CRC
    mismatch, malformed)."""
    try:
        pdu = PduFactory.from_raw(bytes(raw))
    except Exception as e:  # noqa: BLE001
        raise WireError(f"{type(e).__name__}: {e}") from e
    if pdu is None:
        raise WireError("unknown PDU")
    if isinstance(pdu, EofPdu):
        cc = pdu.condition_code
        if not isinstance(cc, ConditionCode):
            try:
                pdu.condition_code = ConditionCode(int(cc) >> 4)
            except ValueError as e:  # a reserved condition code: not a PDU the dependency can represent
                raise WireError(f"ValueError: {e}") from e
        pdu.file_checksum = bytes(pdu.file_checksum)
    return pdu


def describe(raw: bytes) -> dict[str, Any]:
    """Summary of a PDU (kind + the fields the oracles use); never raises."""
    try:
        h = hdr(raw)
        d: dict[str, Any] = {"kind": kind_of(raw), "len": len(raw), "h": h}
    except Exception as e:  # noqa: BLE001
        return {"kind": "?", "len": len(raw), "error": f"{type(e).__name__}: {e}"}
    try:
        pdu = parse(raw)
    except WireError as e:
        d["error"] = str(e)
        return d
    k = d["kind"]
    try:
        if k == "FD":
            d["offset"] = pdu.offset
            d["data"] = bytes(pdu.file_data)
            d["dlen"] = len(pdu.file_data)
        elif k == "EOF":
            d["cond"] = pdu.condition_code.name
            d["size"] = pdu.file_size
            d["cksum"] = bytes(pdu.file_checksum).hex()
            fl = pdu.fault_location
            d["fault_loc"] = None if fl is None else int.from_bytes(bytes(fl.value), "big")
        elif k == "MD":
            d["size"] = pdu.file_size
            d["src_name"] = pdu.source_file_name
            d["dst_name"] = pdu.dest_file_name
            d["closure"] = bool(pdu.closure_requested)
            d["cktype"] = pdu.checksum_type.name
            opts = pdu.options_as_tlv()
            d["options"] = None if opts is None else [bytes(t.pack()).hex() for t in opts]
        elif k == "FIN":
            fp = pdu.finished_params
            fl = fp.fault_location
            d["cond"] = fp.condition_code.name
            d["delivery"] = fp.delivery_code.name
            d["fstatus"] = fp.file_status.name
            d["fault_loc"] = None if fl is None else int.from_bytes(bytes(fl.value), "big")
        elif k in ("ACK_EOF", "ACK_FIN"):
            b = raw[h["hlen"] + 2]
            d["cond"] = ConditionCode(b >> 4).name
            d["status"] = ("UNDEFINED", "ACTIVE", "TERMINATED", "UNRECOGNIZED")[b & 3]
        elif k == "NAK":
            d["scope"] = (pdu.start_of_scope, pdu.end_of_scope)
            d["reqs"] = [tuple(r) for r in pdu.segment_requests]
    except Exception as e:  # noqa: BLE001
        d["error"] = f"describe: {type(e).__name__}: {e}"
    return d


def short(d: dict[str, Any]) -> str:
    k = d.get("kind", "?")
    if "error" in d:
        return f"{k}!{d['error'][:40]}"
    if k == "FD":
        return f"FD[{d['offset']},{d['offset'] + d['dlen']})"
    if k == "EOF":
        return f"EOF({d['cond']},{d['size']})"
    if k == "FIN":
        return f"FIN({d['cond']},{d['delivery']},{d['fstatus']})"
    if k == "NAK":
        return f"NAK{d['scope']}{d['reqs']}"
    if k.startswith("ACK"):
        return f"{k}({d['cond']},{d['status']})"
    if k == "MD":
        return f"MD({d['size']})"
    return k
