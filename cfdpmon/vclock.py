"""Virtual time for the code under test.

``spacepackets.countdown.Countdown`` reads the time through the module level function
``spacepackets.countdown.time_ms``.  Rebinding that name gives exact logical time without touching
the repository.  The clock is per thread (C11 runs one loopback pair per thread) and keeps a weak
registry of the Countdown objects created/restarted on that thread so that the bench can advance
*exactly* to the next expiry: all timer verdicts are counted in expiries, never in wall-clock.
"""
from __future__ import annotations

import threading
import weakref

import spacepackets.countdown as _cd

_local = threading.local()
_START = 1_000_000_000


class Clock:
    """one virtual time line with the Countdown objects created/restarted while it was current"""

    def __init__(self, start: int = _START):
        self.now = start
        self.timers = weakref.WeakSet()


def _st() -> Clock:
    c = getattr(_local, "cur", None)
    if c is None:
        c = _local.cur = Clock()
    return c


def now_ms() -> int:
    return _st().now


def reset(start: int = _START) -> Clock:
    """Starts a fresh time line and makes it the current one of this thread."""
    _local.cur = Clock(start)
    return _local.cur


def use(clock: Clock) -> None:
    """Makes ``clock`` current for this thread: sibling loopback worlds stepped in alternation each keep their own time line."""
    _local.cur = clock


def advance(ms: int) -> None:
    _st().now += ms


def live_deadlines() -> list[int]:
    st = _st()
    out = []
    for t in list(st.timers):
        dl = t._start_time_ms + t._timeout_ms
        if dl > st.now:
            out.append(dl)
    return sorted(out)


def advance_to_next_expiry(default_ms: int = 1000) -> int:
    """Moves the clock exactly onto the earliest deadline of a registered Countdown which is still
    in the future (``timed_out`` is ``>=``).  Returns the number of ms advanced."""
    st = _st()
    dls = live_deadlines()
    step = (dls[0] - st.now) if dls else default_ms
    st.now += step
    return step


_orig_init = _cd.Countdown.__init__
_orig_start = _cd.Countdown.start
_installed = False


def _init(self, init_timeout):
    _orig_init(self, init_timeout)
    _st().timers.add(self)


def _start(self):
    _orig_start(self)
    _st().timers.add(self)


def install() -> None:
    global _installed
    if _installed:
        return
    _cd.time_ms = now_ms
    _cd.Countdown.__init__ = _init
    _cd.Countdown.start = _start
    _installed = True


install()
