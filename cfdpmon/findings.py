"""Classifiers for known findings: predicates over a violation witness that identify a *mechanism*
(raising frame + exception type, PDU kind + handler step, call site), never a seed or hash.
A witness no classifier accepts is reported as a VIOLATION."""
from __future__ import annotations

from typing import Any


def classify(prop: str, viol: dict[str, Any], case: dict[str, Any]) -> str | None:
    fn = globals().get("_" + prop.lower())
    if fn is None:
        return None
    return fn(viol, case)
