"""cfdpmon: runtime-monitoring bench for us-irs/cfdp-py (see /verif/DESIGN.md).

Importing this package makes sure the repository's *working tree* is what gets executed and
installs the virtual clock into the ``spacepackets.countdown`` dependency.
"""
from __future__ import annotations

import hashlib
import os
import sys
from pathlib import Path

VERIF_ROOT = Path(__file__).resolve().parent.parent
REPO_ROOT = Path(os.environ.get("CFDPMON_REPO", "/repo"))
REPO_SRC = REPO_ROOT / "src"

# The installed package is an editable install pointing at /repo/src; putting the path first keeps
# that true even if the .pth entry should vanish, and lets mutation trials override it through
# CFDPMON_REPO (scratch copies under /tmp, never /repo itself).
if str(REPO_SRC) not in sys.path[:1]:
    sys.path.insert(0, str(REPO_SRC))
_deps = VERIF_ROOT / ".deps"
if _deps.is_dir() and str(_deps) not in sys.path:
    sys.path.append(str(_deps))


def tree_hash() -> str:
    """Content hash of the cfdppy sources that are executed (recorded in the evidence)."""
    h = hashlib.sha256()
    for p in sorted((REPO_SRC / "cfdppy").rglob("*.py")):
        h.update(str(p.relative_to(REPO_SRC)).encode())
        h.update(p.read_bytes())
    return h.hexdigest()[:16]


def cfdppy_location() -> str:
    import cfdppy

    return str(Path(cfdppy.__file__).resolve())
