"""Scenario prefixes: drive one real handler of a World into a given resting step using a
scripted peer (no second handler involved)."""
from __future__ import annotations

from typing import Any

from . import models, pdugen, wire
from .world import PROTO_EXC, World


def tx_conf(w: World, seq: int | None = None, mode: str | None = None, crc: bool | None = None):
    c = w.cfg
    idw = max(c["src_idw"], c["dst_idw"])
    return pdugen.conf(
        1, 2, c["seq_start"] if seq is None else seq, idw=idw, seqw=c["seqw"] // 8,
        mode=(c["mode"] if mode is None else mode), crc=(c["crc"] if crc is None else crc),
    )


def feed(ep, raw: bytes):
    """Delivers bytes to an endpoint the way the entity shell would; returns exception or None."""
    pdu = wire.parse(raw)
    d = wire.describe(raw)
    try:
        ep.sm(pdu, {k: v for k, v in d.items() if k not in ("data", "h")})
    except PROTO_EXC as e:
        return e
    return None


SRC_TARGETS = ["SENDING_METADATA", "SENDING_FILE_DATA", "RETRANSMITTING", "WAITING_FOR_EOF_ACK", "WAITING_FOR_FINISHED", "SENDING_ACK_OF_FINISHED", "IDLE_FRESH",
               "IDLE_AFTER_TRANSACTION"]


def src_to(w: World, target: str) -> bool:
    """Returns True if the source handler rests in the target step afterwards."""
    S = w.S
    if target == "IDLE_FRESH":
        return S.h.step.name == "IDLE"
    w.put()
    for _ in range(w.cfg["size"] + 10):
        S.sm()
        S.outbox.clear()
        if target == "SENDING_METADATA":
            return S.h.step.name == target
        if target == "SENDING_FILE_DATA" and S.h.step.name == "SENDING_FILE_DATA":
            return True
        if target == "RETRANSMITTING" and S.h.step.name == "SENDING_FILE_DATA" and S.h.progress > 0:
            # (acknowledged mode only) a NAK for the first bytes is served: the handler rests in RETRANSMITTING until its next call
            n = min(4, S.h.progress)
            feed(S, pdugen.raw("NAK", tx_conf(w), {"scope": (0, n), "reqs": [(0, n)]}))
            S.outbox.clear()
            return S.h.step.name == target
        if S.h.step.name in ("WAITING_FOR_EOF_ACK", "WAITING_FOR_FINISHED", "IDLE"):
            break
    if target == "WAITING_FOR_EOF_ACK":
        return S.h.step.name == target
    if S.h.step.name == "WAITING_FOR_EOF_ACK":
        feed(S, pdugen.raw("ACK_EOF", tx_conf(w)))
        S.outbox.clear()
    if target == "WAITING_FOR_FINISHED":
        return S.h.step.name == target
    if target == "SENDING_ACK_OF_FINISHED":
        # (acknowledged mode only) the Finished PDU was received, its ACK is queued: the handler rests here until its next call
        if S.h.step.name == "WAITING_FOR_FINISHED":
            feed(S, pdugen.raw("FIN", tx_conf(w)))
            S.outbox.clear()
        return S.h.step.name == target
    if target == "IDLE_AFTER_TRANSACTION":
        if S.h.step.name == "WAITING_FOR_FINISHED":
            feed(S, pdugen.raw("FIN", tx_conf(w)))
            S.outbox.clear()
            S.sm()
            S.outbox.clear()
        for _ in range(3):
            if S.h.step.name == "IDLE":
                break
            S.sm()
            S.outbox.clear()
        return S.h.step.name == "IDLE"
    return False


DST_TARGETS = [
    "IDLE_FRESH",
    "SENDING_EOF_ACK_PDU",
    "RECEIVING_FILE_DATA",
    "WAITING_FOR_METADATA",
    "WAITING_FOR_METADATA_DEFERRED",
    "WAITING_FOR_MISSING_DATA",
    "RECV_FILE_DATA_WITH_CHECK_LIMIT_HANDLING",
    "WAITING_FOR_FINISHED_ACK",
    "SENDING_FINISHED_PDU",
    "IDLE_AFTER_TRANSACTION",
]


def dst_to(w: World, target: str) -> bool:
    """Requires cfg size >= 2*seg for the steps which need missing data."""
    D = w.D
    c = w.cfg
    tc = tx_conf(w)
    seg = c["seg"] or 4
    data = w.data
    md = pdugen.raw("MD", tc, {"size": len(data), "cks": c["cks"], "closure": c["closure"],
                               "src_name": w.src_path.as_posix(), "dst_name": w.dst_req_path.as_posix()})
    eof = pdugen.raw("EOF", tc, {"size": len(data), "cksum": models.checksum(c["cks"], data)})

    def fd(off):
        return pdugen.raw("FD", tc, {"offset": off, "data": data[off : off + seg]})

    def go(rawpdu):
        feed(D, rawpdu)
        D.outbox.clear()

    def idle(n=1):
        for _ in range(n):
            D.sm()
            D.outbox.clear()

    if target == "IDLE_FRESH":
        return D.h.step.name == "IDLE"
    if target == "RECEIVING_FILE_DATA":
        go(md)
        if len(data) > 0:
            go(fd(0))
        return D.h.step.name == target
    if target == "WAITING_FOR_METADATA":
        go(fd(0))
        return D.h.step.name == target
    if target == "SENDING_EOF_ACK_PDU":
        # (acknowledged mode only) everything arrived; the ACK of the EOF is queued and the handler rests here until its next call
        go(md)
        for off in range(0, len(data), seg):
            go(fd(off))
        go(eof)
        return D.h.step.name == target
    if target == "WAITING_FOR_METADATA_DEFERRED":
        go(fd(0))
        go(eof)
        idle()
        return D.h.step.name == "WAITING_FOR_METADATA" and D.h.deferred_lost_segment_procedure_active
    if target == "WAITING_FOR_MISSING_DATA":
        go(md)
        go(fd(0))
        go(eof)
        idle()
        return D.h.step.name == target
    if target == "RECV_FILE_DATA_WITH_CHECK_LIMIT_HANDLING":
        go(md)
        go(eof)
        return D.h.step.name == target
    if target == "SENDING_FINISHED_PDU":
        # the last segment arrives in the call which starts the deferred procedure: NAK and completion in one call, the Finished
        # PDU waits for the next call
        offs = list(range(0, len(data), seg))
        go(md)
        for off in offs[:-1]:
            go(fd(off))
        go(eof)
        if offs:
            go(fd(offs[-1]))
        return D.h.step.name == target
    if target in ("WAITING_FOR_FINISHED_ACK", "IDLE_AFTER_TRANSACTION"):
        go(md)
        for off in range(0, len(data), seg):
            go(fd(off))
        go(eof)
        idle(2)
        if target == "WAITING_FOR_FINISHED_ACK":
            return D.h.step.name == target
        if D.h.step.name == "WAITING_FOR_FINISHED_ACK":
            go(pdugen.raw("ACK_FIN", tc))
        return D.h.step.name == "IDLE"
    return False
