"""C17 - native filestore operations match a reference file-system model."""
from __future__ import annotations

import hashlib
import logging
import os
import random
import shutil
import tempfile
from collections import Counter
from pathlib import Path

from cfdppy.filestore import FilestoreResult as R
from cfdppy.filestore import NativeFilestore

from ..models import sparse_write
from ..world import _scratch_base

PROP = "C17"
LEVEL = "exploration"
TECHNIQUE = "model-based runtime monitoring: every NativeFilestore operation is executed on a sandbox directory and its return value/exception and the complete resulting tree are compared with a dict-based reference model; DFS over all operation sequences of small depth from 4 seed trees + seeded random long sequences"
RULE = (
    "operations create/delete/rename/replace/create_directory/remove_directory(+-recursive)/truncate/write(offset None,0,2,7)/read/size/"
    "exists/is_directory over the names {a,b,d,d/x,e/y}; DFS of depth 2 (quick) / 3 (thorough) from 4 seed trees (empty; file+dir; files in dir; "
    "file where a directory is expected) and random sequences of length 25.  Expected: documented success/refusal codes and exceptions; where the "
    "documentation is silent (parent missing, path component is a file, truncate/write/read/size on a directory, several failing preconditions) only "
    "'tree unchanged and a refusal code of the right action family or an OSError' is demanded.  Non-trivial = sequence with >=1 tree-changing "
    "operation; distinct = distinct (seed tree, operation sequence)"
)
ASSUMPTIONS = [
    "replace_file: the replaced file must end up with the source's content; whether the source file is removed (os.replace) or kept is not documented and both are accepted",
    "list_directory (shells out) is not part of the property and not driven",
]
logging.disable(logging.CRITICAL)

NAMES = ["a", "b", "d", "d/x", "e/y"]
DIR = "DIR"
SEEDS = [
    {},
    {"a": b"hello", "d": DIR},
    {"a": b"hello", "b": b"0123456789", "d": DIR, "d/x": b"xx"},
    {"d": b"iamfile", "e": DIR, "e/y": b"yy", "b": b""},
]
FAMILY = {"create": 0x0, "delete": 0x1, "rename": 0x2, "replace": 0x4, "mkdir": 0x5, "rmdir": 0x6}


def all_ops():
    ops = []
    for p in NAMES:
        ops += [("create", p), ("delete", p), ("mkdir", p), ("rmdir", p, False), ("rmdir", p, True), ("trunc", p), ("size", p), ("exists", p), ("isdir", p)]
        for off in (None, 0, 2, 7):
            ops.append(("write", p, off))
        for off, ln in ((None, None), (0, 2), (2, 100), (50, 2), (0, 0), (2, 0), (None, 3), (1, None)):
            ops.append(("read", p, off, ln))
        for q in NAMES:
            ops += [("rename", p, q), ("replace", p, q)]
    return ops


OPS = all_ops()


def snapshot(root: Path):
    t = {}
    for dp, dn, fn in os.walk(root):
        for d in dn:
            t[os.path.relpath(os.path.join(dp, d), root)] = DIR
        for f in fn:
            with open(os.path.join(dp, f), "rb") as fh:
                t[os.path.relpath(os.path.join(dp, f), root)] = fh.read()
    return t


def rebuild(root: Path, tree):
    for child in root.iterdir():
        if child.is_dir():
            shutil.rmtree(child)
        else:
            child.unlink()
    for k in sorted(tree, key=lambda s: s.count("/")):
        if tree[k] == DIR:
            (root / k).mkdir()
    for k, v in tree.items():
        if v != DIR:
            (root / k).write_bytes(v)


# -- the model ----------------------------------------------------------------------------------


def kind(tree, p):
    """'file' | 'dir' | 'none' (absent, parent is a directory) | 'orphan' (a parent component is missing or a file)."""
    if p in tree:
        return "dir" if tree[p] == DIR else "file"
    if "/" in p:
        par = p.rsplit("/", 1)[0]
        if tree.get(par) != DIR:
            return "orphan"
    return "none"


class Exp:
    """Expected outcome: a set of acceptable (result descriptors) each with the tree it must leave."""

    def __init__(self):
        self.alts = []  # (matcher(result) -> bool, tree_matcher(real_tree) -> bool, description)

    def add(self, res_ok, tree_ok, desc):
        self.alts.append((res_ok, tree_ok, desc))
        return self


def code(c):
    return lambda r: r == ("code", c.name)


def exc(*names):
    return lambda r: r[0] == "exc" and r[1] in names


def oserror_or_family(fam):
    def f(r):
        if r[0] == "exc":
            return r[2]  # is OSError subclass
        if r[0] == "code":
            v = R[r[1]].value
            return (v >> 4) == fam and (v & 0xF) != 0
        return False

    return f


def value(v):
    return lambda r: r == ("val", v)


def same(tree):
    return lambda t: t == tree


def model(tree, op):
    e = Exp()
    k = op[0]
    p = op[1]
    kp = kind(tree, p)
    unchanged = same(tree)
    if k == "create":
        if kp in ("file", "dir"):
            e.add(code(R.CREATE_NOT_ALLOWED), unchanged, "exists")
        elif kp == "none":
            n = dict(tree)
            n[p] = b""
            e.add(code(R.CREATE_SUCCESS), same(n), "created")
        else:
            e.add(oserror_or_family(0x0), unchanged, "undocumented: no parent")
    elif k == "delete":
        if kp == "file":
            n = dict(tree)
            del n[p]
            e.add(code(R.DELETE_SUCCESS), same(n), "deleted")
        elif kp == "dir":
            e.add(code(R.DELETE_NOT_ALLOWED), unchanged, "is dir")
        else:
            e.add(code(R.DELETE_FILE_DOES_NOT_EXIST), unchanged, "absent")
    elif k == "mkdir":
        if kp in ("file", "dir"):
            e.add(code(R.CREATE_DIR_CAN_NOT_BE_CREATED), unchanged, "exists")
        elif kp == "none":
            n = dict(tree)
            n[p] = DIR
            e.add(code(R.CREATE_DIR_SUCCESS), same(n), "created")
        else:
            e.add(oserror_or_family(0x5), unchanged, "undocumented: no parent")
    elif k == "rmdir":
        rec = op[2]
        below = [x for x in tree if x.startswith(p + "/")]
        if kp in ("none", "orphan"):
            e.add(code(R.REMOVE_DIR_DOES_NOT_EXIST), unchanged, "absent")
        elif kp == "file":
            e.add(code(R.REMOVE_DIR_NOT_ALLOWED), unchanged, "not a dir")
        elif rec or not below:
            n = {x: v for x, v in tree.items() if x != p and x not in below}
            e.add(code(R.REMOVE_DIR_SUCCESS), same(n), "removed")
        else:
            e.add(lambda r: r in (("code", "REMOVE_DIR_NOT_ALLOWED"), ("code", "REMOVE_DIR_NOT_PERFORMED")), unchanged, "not empty")
    elif k == "trunc":
        if kp == "file":
            n = dict(tree)
            n[p] = b""
            e.add(value(None), same(n), "truncated")
        elif kp == "dir":
            e.add(exc("IsADirectoryError", "PermissionError", "OSError"), unchanged, "undocumented: dir")
        else:
            e.add(exc("FileNotFoundError"), unchanged, "absent")
    elif k == "write":
        if kp == "file":
            buf = bytearray(tree[p])
            sparse_write(buf, op[2] or 0, b"xyz")
            n = dict(tree)
            n[p] = bytes(buf)
            e.add(value(None), same(n), "written")
        elif kp == "dir":
            e.add(exc("IsADirectoryError", "PermissionError", "OSError"), unchanged, "undocumented: dir")
        else:
            e.add(exc("FileNotFoundError"), unchanged, "absent")
    elif k == "read":
        if kp == "file":
            off = op[2] or 0
            ln = op[3] if op[3] is not None else len(tree[p])
            e.add(value(tree[p][off : off + ln]), unchanged, "read")
        elif kp == "dir":
            e.add(exc("IsADirectoryError", "PermissionError", "OSError"), unchanged, "undocumented: dir")
        else:
            e.add(exc("FileNotFoundError"), unchanged, "absent")
    elif k == "size":
        if kp == "file":
            e.add(value(len(tree[p])), unchanged, "size")
        elif kp == "dir":
            e.add(lambda r: r[0] == "exc" or (r[0] == "val" and isinstance(r[1], int)), unchanged, "undocumented: dir")
        else:
            e.add(exc("FileNotFoundError"), unchanged, "absent")
    elif k == "exists":
        e.add(value(kp in ("file", "dir")), unchanged, "exists")
    elif k == "isdir":
        e.add(value(kp == "dir"), unchanged, "isdir")
    elif k == "rename":
        q = op[2]
        kq = kind(tree, q)
        fails = []
        if kp == "dir" or kq == "dir":
            fails.append(lambda r: r[0] == "code" and r[1] in ("RENAME_NOT_PERFORMED", "RENAME_NOT_ALLOWED"))
        if kp in ("none", "orphan"):
            fails.append(code(R.RENAME_OLD_FILE_DOES_NOT_EXIST))
        if kq == "file":
            fails.append(code(R.RENAME_NEW_FILE_DOES_EXIST))
        if fails:
            e.add(lambda r: any(f(r) for f in fails), unchanged, "precondition")
        elif kq == "orphan":
            e.add(oserror_or_family(0x2), unchanged, "undocumented: target has no parent")
        else:
            n = dict(tree)
            n[q] = n.pop(p)
            e.add(code(R.RENAME_SUCCESS), same(n), "renamed")
    elif k == "replace":
        q = op[2]  # replace_file(replaced=p, source=q)
        kq = kind(tree, q)
        fails = []
        if kp == "dir" or kq == "dir":
            fails.append(lambda r: r[0] == "code" and r[1] in ("REPLACE_NOT_ALLOWED", "REPLACE_NOT_PERFORMED"))
        if kp in ("none", "orphan"):
            fails.append(code(R.REPLACE_FILE_NAME_ONE_TO_BE_REPLACED_DOES_NOT_EXIST))
        if kq in ("none", "orphan"):
            fails.append(code(R.REPLACE_FILE_NAME_TWO_REPLACE_SOURCE_NOT_EXIST))
        if fails:
            e.add(lambda r: any(f(r) for f in fails), unchanged, "precondition")
        else:
            n1 = dict(tree)
            n1[p] = tree[q]
            n2 = dict(n1)
            if q != p:
                del n2[q]
            e.add(code(R.REPLACE_SUCCESS), lambda t: t in (n1, n2), "replaced")
    return e


def execute(fs, root: Path, op):
    k = op[0]
    p = root / op[1]
    try:
        if k == "create":
            r = fs.create_file(p)
        elif k == "delete":
            r = fs.delete_file(p)
        elif k == "mkdir":
            r = fs.create_directory(p)
        elif k == "rmdir":
            r = fs.remove_directory(p, op[2])
        elif k == "trunc":
            r = fs.truncate_file(p)
        elif k == "write":
            r = fs.write_data(p, b"xyz", op[2])
        elif k == "read":
            r = fs.read_data(p, op[2], op[3])
        elif k == "size":
            r = fs.file_size(p)
        elif k == "exists":
            r = fs.file_exists(p)
        elif k == "isdir":
            r = fs.is_directory(p)
        elif k == "rename":
            r = fs.rename_file(p, root / op[2])
        elif k == "replace":
            r = fs.replace_file(p, root / op[2])
        else:
            raise ValueError(op)
    except Exception as e:  # noqa: BLE001
        return ("exc", type(e).__name__, isinstance(e, OSError))
    if isinstance(r, R):
        return ("code", r.name)
    if isinstance(r, (bytes, bytearray)):
        return ("val", bytes(r))
    return ("val", r)


class Bad(Exception):
    pass


def step(fs, root, tree, op, seq, stats):
    e = model(tree, op)
    res = execute(fs, root, op)
    real = snapshot(root)
    stats["ops"] += 1
    stats["op_" + op[0]] += 1
    stats["res_" + (res[1] if res[0] in ("code", "exc") else "value")] += 1
    for res_ok, tree_ok, desc in e.alts:
        if res_ok(res):
            if tree_ok(real):
                if desc.startswith("undocumented"):
                    stats["lenient_clause_used"] += 1
                return real
            raise Bad({"clause": "tree-differs-from-model", "op": op, "result": res, "expected": desc,
                       "tree_before": {k: (v if v == DIR else v.hex()) for k, v in tree.items()},
                       "tree_after": {k: (v if v == DIR else v.hex()) for k, v in real.items()}, "seq": seq})
    raise Bad({"clause": "result-differs-from-model", "op": op, "result": res, "expected": [a[2] for a in e.alts],
               "tree_before": {k: (v if v == DIR else v.hex()) for k, v in tree.items()},
               "tree_changed": real != tree, "seq": seq})


def dfs(fs, root, tree, depth, seq, stats, sigs):
    for op in OPS:
        s2 = seq + [op]
        real = step(fs, root, tree, op, s2, stats)
        changed = real != tree
        if changed or any(o_changed for o_changed in seq[:0]):
            pass
        if depth > 1:
            dfs(fs, root, real, depth - 1, s2, stats, sigs)
        if changed or stats.get("_dirty"):
            sigs.add(hashlib.sha1(repr(s2).encode()).hexdigest()[:16])
        if changed or depth > 1:
            rebuild(root, tree)


def gen_cases(tier, seed):
    cases = []
    depth = 2 if tier == "quick" else 3
    for si in range(len(SEEDS)):
        for oi in range(len(OPS)):
            cases.append({"kind": "dfs", "seed_tree": si, "first": oi, "depth": depth})
    n = 1500 if tier == "quick" else 20000
    for i in range(n):
        cases.append({"kind": "random", "seed": seed * 99991 + i, "seed_tree": i % len(SEEDS), "len": 25})
    return cases


def run_case(case):
    stats = Counter()
    sigs: set = set()
    viol = []
    sample = None
    root = Path(tempfile.mkdtemp(prefix="cfdpmon-c17-", dir=_scratch_base()))
    fs = NativeFilestore()
    try:
        tree = dict(SEEDS[case["seed_tree"]])
        rebuild(root, tree)
        if case["kind"] == "dfs":
            op = OPS[case["first"]]
            real = step(fs, root, tree, op, [op], stats)
            if real != tree:
                sigs.add(hashlib.sha1(repr([case["seed_tree"], op]).encode()).hexdigest()[:16])
            if case["depth"] > 1:
                dfs(fs, root, real, case["depth"] - 1, [case["seed_tree"], op], stats, sigs)
            sample = {"seed_tree": case["seed_tree"], "first_op": op, "depth": case["depth"], "ops_below": stats["ops"]}
        else:
            rng = random.Random(case["seed"])
            seq = [case["seed_tree"]]
            nchg = 0
            for _ in range(case["len"]):
                op = rng.choice(OPS)
                seq.append(op)
                real = step(fs, root, tree, op, seq, stats)
                if real != tree:
                    nchg += 1
                tree = real
            if nchg:
                sigs.add(hashlib.sha1(repr(seq).encode()).hexdigest()[:16])
            sample = {"seed_tree": case["seed_tree"], "sequence": seq[1:9], "tree_changes": nchg}
    except Bad as b:
        viol.append(b.args[0])
    finally:
        shutil.rmtree(root, ignore_errors=True)
    return {"viol": viol, "sig": None, "sigs": sorted(sigs), "obs": dict(stats), "sample": sample}


def exhaustive(tier):
    return False


REQUIRED = {"ops": 5000, "op_rename": 100, "op_replace": 100, "op_rmdir": 100, "op_write": 100, "res_REMOVE_DIR_NOT_PERFORMED": 1,
            "res_RENAME_SUCCESS": 1, "res_REPLACE_SUCCESS": 1, "res_FileNotFoundError": 10}
