"""C19 - put requests are admitted, parameterised and identified correctly."""
from __future__ import annotations

import itertools
import random
from pathlib import Path

from spacepackets.cfdp import TransmissionMode
from spacepackets.seqcount import SeqCountProvider
from spacepackets.util import ByteFieldGenerator

from cfdppy.request import PutRequest

from .. import models, pdugen, prep, wire
from ..world import MODES, PROTO_EXC, World

PROP = "C19"
LEVEL = "exploration"
TECHNIQUE = "runtime monitoring of the real SourceHandler at the put_request boundary: (1) complete truth table request-level x MIB-level mode/closure against the Metadata PDU and the observed procedure, with the observed File Data lengths against min(configured, derived) segment length; (2) differential run: a second (valid or invalid) put request injected before every state_machine call of a running transfer must return False and leave the byte-exact PDU/indication trace of the reference run; (3) invalid requests (missing source, unknown destination) must raise the documented error and leave the handler idle and reusable (follow-up trace equal to a fresh handler's); (4) a recording sequence-number provider shared by several handlers: every transaction consumes exactly the next value and no two transactions share an id"
RULE = (
    "table cases = request mode {ack, unack, None} x MIB mode {ack, unack} x request closure {True, False, None} x MIB closure {True, False} x segment "
    "configuration {None, below derived, above derived} x PDU CRC (complete product); busy cases = every call index of the reference run x 5 kinds of second "
    "request x mode; invalid cases = all sequences up to length 3 over {missing source, unknown destination, valid} x preceding history {fresh, completed, "
    "cancelled}; seq cases = seeded random interleavings of 2-4 handlers sharing one provider (incl. refused and invalid puts, cancels).  Non-trivial = at "
    "least one put request was judged; distinct = distinct cases"
)
ASSUMPTIONS = [
    "the ideal scripted peer acknowledges EOF and sends Finished; PDUs reach it as bytes",
    "the sequence-number provider is the dependency's SeqCountProvider wrapped by a recorder; wrap-around of the provider is the provider's business and not exercised",
]
LAG = 1


class RecSeq(SeqCountProvider):
    def __init__(self, width, start=0):
        super().__init__(width)
        self.count = start
        self.calls: list[tuple[str, int]] = []
        self.who = "?"

    def get_and_increment(self) -> int:
        v = super().get_and_increment()
        self.calls.append((self.who, v))
        return v


def drive(w: World, inject=None, max_calls=200, put=True):
    """Runs the sender with the ideal peer.  inject: {call index: callable(world) -> record} run before that call.
    Returns list of (call index, tag, payload) trace items and the injection results."""
    S = w.S
    trace, inj = [], {}
    mark = 0

    def collect(i):
        nonlocal mark
        for e in w.log.events[mark:]:
            k = e["kind"]
            if k == "tx":
                trace.append(("tx", e["raw"]))
            elif k.startswith("ind_") or k == "fh":
                trace.append((k, tuple(sorted((a, repr(b)) for a, b in e.items() if a not in ("seq", "kind", "side")))))
            elif k == "exc":
                trace.append(("exc", e["api"], e["etype"]))
        mark = len(w.log.events)

    if put:
        w.put()
    tc = None
    eof_call = ack_call = None
    acked = fin = False
    i = 0
    while i < max_calls:
        if inject and i in inject:
            inj[i] = inject[i](w)
            collect(i)
        if S.h.state.name == "IDLE":
            break
        raw = None
        if eof_call is not None:
            ack_mode = S.h.transmission_mode == TransmissionMode.ACKNOWLEDGED
            if ack_mode and not acked and i - eof_call > LAG:
                raw, acked, ack_call = pdugen.raw("ACK_EOF", tc), True, i
            elif not fin and (acked and i - ack_call > LAG or (not ack_mode and i - eof_call > LAG)) and S.h.step.name == "WAITING_FOR_FINISHED":
                raw, fin = pdugen.raw("FIN", tc), True
        S.outbox.clear()
        try:
            if raw is None:
                S.sm()
            else:
                e = prep.feed(S, raw)
                if e is not None:
                    trace.append(("peer-pdu-refused", type(e).__name__))
        except PROTO_EXC as e:
            trace.append(("sm-raised", type(e).__name__))
        except Exception as e:  # noqa: BLE001
            trace.append(("sm-raised-internal", type(e).__name__, str(e)[:100]))
            break
        for it in S.outbox:
            d = it["d"]
            if tc is None and d.get("h"):
                h = d["h"]
                tc = pdugen.conf(h["src"], h["dst"], h["seq"], idw=h["idw"], seqw=h["seqw"], mode="unack" if h["unack"] else "ack", crc=h["crc"])
            if d.get("kind") == "EOF" and eof_call is None:
                eof_call = i
        collect(i)
        i += 1
    return trace, inj


def gen_cases(tier, seed):
    cases = []
    for i, (rm, mm, rc, mc, segk, crc) in enumerate(itertools.product(("ack", "unack", None), ("ack", "unack"), (True, False, None), (True, False),
                                                                      ("none", "below", "below1", "above", "above1", "equal"), (False, True))):
        cases.append({"t": "table", "rm": rm, "mm": mm, "rc": rc, "mc": mc, "segk": segk, "crc": crc, "idw": 1 + (i // 8) % 2})
    kinds = ("same", "other_file", "missing_source", "unknown_dest", "metadata_only", "third_entity", "metadata_only_binary_msgs")
    for mode, closure, size in (("ack", False, 9), ("unack", True, 9), ("unack", False, 4), ("ack", True, 0)):
        cfg = {"mode": mode, "closure": closure, "size": size, "seg": 4, "fs": "mem"}
        for k in range(0, 14):
            for kind in kinds:
                cases.append({"t": "busy", "cfg": cfg, "k": k, "kind": kind})
    inv = ("missing_source", "unknown_dest")
    seqs = []
    for n in (1, 2, 3):
        for t in itertools.product(inv, repeat=n):
            seqs.append(list(t))
            if n < 3:
                seqs.append(list(t) + ["valid"])
    for hist in ("fresh", "completed", "cancelled"):
        for seq in seqs:
            for mode in ("ack", "unack"):
                cases.append({"t": "invalid", "hist": hist, "seq": seq, "mode": mode})
    rng = random.Random(1900 + seed)
    n = 150 if tier == "quick" else 5000
    for i in range(n):
        cases.append({"t": "seq", "seed": seed * 1_000_003 + i, "nh": rng.choice([2, 3, 4]), "width": rng.choice([8, 16, 32]), "start": rng.choice([0, 1, 7, 100])})
    # the largest values of every sequence number width (the provider itself is never driven beyond the width)
    for width in (8, 16, 32):
        for nh in (1, 2):
            cases.append({"t": "seq", "seed": seed * 1_000_003 + 900 + width + nh, "nh": nh, "width": width, "start": (1 << width) - 3, "max_tx": 3})
    return cases


def second_request(w: World, kind: str) -> PutRequest:
    if kind == "same":
        return w.put_request()
    if kind == "other_file":
        p = w.root / "srcdir" / "other.bin"
        w.write_raw("src", p, b"OTHER-FILE-CONTENT")
        return PutRequest(w.dst_id, p, w.root / "dstdir" / "other-out.bin", TransmissionMode.UNACKNOWLEDGED, True)
    if kind == "missing_source":
        return PutRequest(w.dst_id, w.root / "srcdir" / "does-not-exist.bin", w.dst_req_path, None, None)
    if kind == "unknown_dest":
        return PutRequest(ByteFieldGenerator.from_int(w.cfg["dst_idw"], 99), w.src_path, w.dst_req_path, None, None)
    if kind == "metadata_only":
        return PutRequest(w.dst_id, None, None, None, None)
    if kind == "metadata_only_binary_msgs":
        # a metadata-only request whose messages to user are binary data (not UTF-8, longer than the reserved prefix)
        from spacepackets.cfdp.tlv import MessageToUserTlv

        return PutRequest(w.dst_id, None, None, None, None, msgs_to_user=[MessageToUserTlv(b"\xff\xfe\x00\x01\x02"), MessageToUserTlv(bytes(range(200, 240)))])
    if kind == "third_entity":
        # a valid request towards another known entity whose remote configuration differs in every parameter
        return PutRequest(w.third_id, w.src_path, w.dst_req_path, None, None)
    raise ValueError(kind)


def run_table(case):
    viol, obs = [], {}
    idw = case["idw"]
    crc = case["crc"]
    maxpkt = 40
    derived = models.max_fd_payload(maxpkt, idw, 2, crc)
    seg = {"none": None, "below": derived - 3, "below1": derived - 1, "above": derived + 5, "above1": derived + 1, "equal": derived}[case["segk"]]
    eff = derived if seg is None else min(seg, derived)
    cfg = {"mode": case["mm"], "closure": case["mc"], "req_mode": case["rm"], "req_closure": case["rc"], "seg": seg, "maxpkt": maxpkt, "crc": crc,
           "src_idw": idw, "dst_idw": idw, "size": 3 * eff + 2, "fs": "mem"}
    # World: req_mode 'cfg' means "as MIB"; here the request value is given literally
    want_mode = case["rm"] if case["rm"] is not None else case["mm"]
    want_closure = case["rc"] if case["rc"] is not None else case["mc"]
    with World(cfg) as w:
        try:
            ok = w.S.put(PutRequest(w.dst_id, w.src_path, w.dst_req_path, MODES[case["rm"]], case["rc"]))
        except Exception as e:  # noqa: BLE001
            return [{"clause": "valid-put-request-raised", "etype": type(e).__name__, "msg": str(e)[:150]}], obs
        if ok is not True:
            viol.append({"clause": "idle-handler-refused-put-request", "returned": ok})
            return viol, obs
        trace, _ = drive(w, put=False)
        txs = [wire.describe(x[1]) for x in trace if x[0] == "tx"]
        md = next((d for d in txs if d.get("kind") == "MD"), None)
        if md is None:
            viol.append({"clause": "no-metadata-pdu"})
            return viol, obs
        got_mode = "unack" if md["h"]["unack"] else "ack"
        if got_mode != want_mode:
            viol.append({"clause": "transmission-mode-resolution", "request": case["rm"], "mib": case["mm"], "metadata_pdu": got_mode})
        if md["closure"] != want_closure:
            viol.append({"clause": "closure-resolution", "request": case["rc"], "mib": case["mc"], "metadata_pdu": md["closure"]})
        for d in txs:
            if ("unack" if d["h"]["unack"] else "ack") != got_mode:
                viol.append({"clause": "pdu-mode-differs-from-metadata-pdu", "pdu": wire.short(d)})
                break
        # observed procedure follows the resolved values
        kinds = [d["kind"] for d in txs]
        fins = [x for x in trace if x[0] == "ind_finished"]
        if want_mode == "ack":
            if "ACK_FIN" not in kinds:
                viol.append({"clause": "acknowledged-procedure-not-followed", "pdus": kinds})
        else:
            if "ACK_FIN" in kinds:
                viol.append({"clause": "unacknowledged-transfer-acknowledged-finished", "pdus": kinds})
        if len(fins) != 1:
            viol.append({"clause": "transaction-finished-count", "n": len(fins)})
        lens = [d["dlen"] for d in txs if d["kind"] == "FD"]
        if not lens or max(lens) != eff or any(x > eff for x in lens):
            viol.append({"clause": "segment-length-not-min-of-configured-and-derived", "observed": lens, "configured": seg, "derived": derived, "want": eff})
        if (case["rm"] is None or case["rc"] is None) and not viol:
            # the caller re-uses its PutRequest object (mode / closure left to the MIB) after the MIB defaults were changed: the second
            # transaction must follow the new defaults
            req = w.S.h.get_put_request()
            flip_mode = "unack" if case["mm"] == "ack" else "ack"
            if case["crc"]:
                # (half of the cells) the user *replaces* the entry of this destination in the table by a new configuration object
                import dataclasses

                newcfg = dataclasses.replace(w.rc_dst_at_src, default_transmission_mode=MODES[flip_mode], closure_requested=not case["mc"])
                w.S.h.remote_cfg_table.add_config(newcfg)
                if w.S.h.remote_cfg_table.get_cfg(w.dst_id) is not newcfg:
                    viol.append({"clause": "harness-could-not-replace-mib-entry"})
                w.rc_dst_at_src = newcfg
                obs["mib_entry_replaced_between_requests"] = 1
            else:
                w.rc_dst_at_src.default_transmission_mode = MODES[flip_mode]
                w.rc_dst_at_src.closure_requested = not case["mc"]
            want_mode2 = case["rm"] if case["rm"] is not None else flip_mode
            want_closure2 = case["rc"] if case["rc"] is not None else (not case["mc"])
            mark = len(w.log.events)
            try:
                ok2 = w.S.put(req)
                trace2, _ = drive(w, put=False)
                txs2 = [wire.describe(x["raw"]) for x in w.log.events[mark:] if x["kind"] == "tx" and x["side"] == "S"]
                md2 = next((d for d in txs2 if d.get("kind") == "MD"), None)
                if ok2 is not True or md2 is None:
                    viol.append({"clause": "re-used-put-request-object-not-accepted", "returned": ok2})
                else:
                    got2 = ("unack" if md2["h"]["unack"] else "ack", md2["closure"])
                    if got2 != (want_mode2, want_closure2):
                        viol.append({"clause": "mode-closure-resolution-with-re-used-request-object", "got": got2, "want": (want_mode2, want_closure2),
                                     "request": (case["rm"], case["rc"]), "mib_now": (flip_mode, not case["mc"])})
                    if req.trans_mode is not MODES[case["rm"]] or req.closure_requested is not case["rc"]:
                        viol.append({"clause": "put-request-object-modified-by-the-handler", "trans_mode": str(req.trans_mode), "closure_requested": req.closure_requested})
                    obs["reused_request_objects_checked"] = 1
            except Exception as e:  # noqa: BLE001
                viol.append({"clause": "re-used-put-request-object-raised", "etype": type(e).__name__, "msg": str(e)[:120]})
        if not viol and w.S.h.state.name == "IDLE":
            # the user raises the maximum packet length of this destination and sends the file again (a new request object): the segment
            # length follows the configuration as it is now
            w.rc_dst_at_src.max_packet_len = maxpkt + 16
            if w.rc_dst_at_src.max_file_segment_len != seg:
                viol.append({"clause": "remote-entity-configuration-modified-by-the-handler", "max_file_segment_len": w.rc_dst_at_src.max_file_segment_len, "configured": seg})
            derived3 = models.max_fd_payload(maxpkt + 16, idw, 2, crc)
            eff3 = derived3 if seg is None else min(seg, derived3)
            mark = len(w.log.events)
            try:
                ok3 = w.S.put(PutRequest(w.dst_id, w.src_path, w.dst_req_path, MODES[case["rm"]], case["rc"]))
                drive(w, put=False)
                lens3 = [d["dlen"] for d in (wire.describe(x["raw"]) for x in w.log.events[mark:] if x["kind"] == "tx" and x["side"] == "S") if d.get("kind") == "FD"]
                if ok3 is not True or not lens3 or max(lens3) != min(eff3, len(w.data)) or any(x > eff3 for x in lens3):
                    viol.append({"clause": "segment-length-after-packet-length-was-raised", "observed": lens3, "configured": seg, "derived_now": derived3, "want": eff3})
                else:
                    obs["segment_length_after_mib_change_checked"] = 1
            except Exception as e:  # noqa: BLE001
                viol.append({"clause": "put-after-mib-change-raised", "etype": type(e).__name__, "msg": str(e)[:120]})
        obs["table_cells"] = 1
        obs["mode_from_" + ("request" if case["rm"] else "mib")] = 1
        obs["closure_from_" + ("request" if case["rc"] is not None else "mib")] = 1
        obs["seglen_" + case["segk"]] = 1
    return viol, obs


def run_busy(case):
    viol, obs = [], {}
    with World(case["cfg"]) as w0:
        ref, _ = drive(w0)
        ref_seq_calls = w0.seq_provider.count
    with World(case["cfg"]) as w:
        def inj(wd):
            before = (wd.S.h.state.name, wd.S.h.step.name, wd.S.h.progress, wd.S.h.num_packets_ready)
            req = second_request(wd, case["kind"])
            try:
                res = wd.S.put(req)
            except Exception as e:  # noqa: BLE001
                res = f"raised {type(e).__name__}"
            after = (wd.S.h.state.name, wd.S.h.step.name, wd.S.h.progress, wd.S.h.num_packets_ready)
            return {"res": res, "before": before, "after": after}

        trace, injres = drive(w, {case["k"]: inj})
        r = injres.get(case["k"])
        if r is None:
            obs["injection_after_end"] = 1
            return viol, obs
        busy = r["before"][0] == "BUSY"
        if busy:
            obs["puts_on_busy_handler"] = 1
            obs["busy_at_" + r["before"][1]] = 1
            if r["res"] is not False:
                viol.append({"clause": "busy-handler-did-not-return-false", "returned": r["res"], "second_request": case["kind"], "handler": r["before"]})
            if r["before"] != r["after"]:
                viol.append({"clause": "refused-put-changed-handler-state", "before": r["before"], "after": r["after"]})
            # the trace of the running transaction: identical to the reference (the exc entry of a raising put is the harness' own record)
            t2 = [x for x in trace if not (x[0] == "exc" and x[1] == "put_request")]
            if t2 != ref:
                j = next((i for i, (a, b) in enumerate(zip(t2, ref)) if a != b), min(len(t2), len(ref)))
                viol.append({"clause": "running-transaction-affected-by-refused-put", "second_request": case["kind"], "first_difference_at": j,
                             "got": _short(t2[j : j + 3]), "want": _short(ref[j : j + 3]), "lens": (len(t2), len(ref))})
            else:
                obs["traces_equal_to_reference"] = 1
            if w.seq_provider.count != ref_seq_calls:
                viol.append({"clause": "refused-put-consumed-sequence-number", "provider_count": w.seq_provider.count, "reference": ref_seq_calls})
        else:
            obs["injection_on_idle_handler"] = 1
    return viol, obs


def _short(items):
    out = []
    for x in items:
        if x[0] == "tx":
            out.append(wire.short(wire.describe(x[1])))
        else:
            out.append(str(x)[:120])
    return out


def run_invalid(case):
    viol, obs = [], {}
    cfg = {"mode": case["mode"], "closure": case["mode"] == "unack", "size": 9, "seg": 4, "fs": "mem"}
    # reference: fresh handler, same history, then the valid request
    def history(w):
        if case["hist"] == "fresh":
            return
        if case["hist"] == "completed":
            drive(w)
        else:
            w.put()
            w.S.sm()
            w.S.sm()
            w.S.outbox.clear()
            w.S.cancel(w.S.h.transaction_id)
            for _ in range(6):
                if w.S.h.state.name == "IDLE":
                    break
                tid = w.S.cur_tid
                tc = pdugen.conf(1, 2, tid[2], idw=2, seqw=2, mode=case["mode"])
                st = w.S.h.step.name
                if st == "WAITING_FOR_EOF_ACK":
                    prep.feed(w.S, pdugen.raw("ACK_EOF", tc, {"cond": "CANCEL_REQUEST_RECEIVED"}))
                elif st == "WAITING_FOR_FINISHED":
                    prep.feed(w.S, pdugen.raw("FIN", tc, {"cond": "CANCEL_REQUEST_RECEIVED", "delivery": "DATA_INCOMPLETE", "fault_loc": b"\x00\x01"}))
                else:
                    w.S.sm()
                w.S.outbox.clear()
            w.S.outbox.clear()

    with World(cfg) as w0:
        history(w0)
        m0 = len(w0.log.events)
        ref = None
        if case["seq"][-1] == "valid":
            drive(w0)
            ref_tail = _tail(w0, m0)
    with World(cfg) as w:
        history(w)
        if w.S.h.state.name != "IDLE":
            return [{"clause": "harness-history-did-not-end-idle", "hist": case["hist"], "step": w.S.h.step.name}], obs
        m = len(w.log.events)
        for kind in case["seq"]:
            if kind == "valid":
                break
            req = second_request(w, kind)
            want = "SourceFileDoesNotExist" if kind == "missing_source" else "NoRemoteEntityCfgFound"
            count_before = w.seq_provider.count
            try:
                res = w.S.put(req)
                viol.append({"clause": "invalid-put-request-did-not-raise", "kind": kind, "returned": res})
            except Exception as e:  # noqa: BLE001
                if type(e).__name__ != want:
                    viol.append({"clause": "invalid-put-request-raised-wrong-error", "kind": kind, "raised": type(e).__name__, "want": want})
                else:
                    obs["documented_errors_" + want] = obs.get("documented_errors_" + want, 0) + 1
            st = (w.S.h.state.name, w.S.h.step.name, w.S.h.num_packets_ready)
            if st != ("IDLE", "IDLE", 0):
                viol.append({"clause": "handler-not-idle-after-invalid-put-request", "kind": kind, "state": st})
            if w.seq_provider.count != count_before:
                viol.append({"clause": "invalid-put-consumed-sequence-number", "kind": kind})
            # an idle call must do nothing
            w.S.outbox.clear()
            try:
                w.S.sm()
            except Exception as e:  # noqa: BLE001
                viol.append({"clause": "state-machine-raised-after-invalid-put-request", "kind": kind, "etype": type(e).__name__, "msg": str(e)[:120]})
            if w.S.outbox or w.S.h.state.name != "IDLE":
                viol.append({"clause": "activity-after-invalid-put-request", "kind": kind, "pdus": [wire.short(i["d"]) for i in w.S.outbox], "state": w.S.h.state.name})
            inds = [e["kind"] for e in w.log.events[m:] if e["kind"].startswith("ind_") or e["kind"] == "fh"]
            if inds:
                viol.append({"clause": "indication-after-invalid-put-request", "kind": kind, "indications": inds})
        if case["seq"][-1] == "valid":
            try:
                tr, _ = drive(w)
                tail = _tail(w, m)
                if tail != ref_tail:
                    j = next((i for i, (a, b) in enumerate(zip(tail, ref_tail)) if a != b), min(len(tail), len(ref_tail)))
                    viol.append({"clause": "handler-not-reusable-after-invalid-put-request", "first_difference_at": j, "got": _short(tail[j : j + 3]),
                                 "want": _short(ref_tail[j : j + 3])})
                else:
                    obs["reuse_traces_equal_to_reference"] = 1
            except Exception as e:  # noqa: BLE001
                viol.append({"clause": "valid-put-after-invalid-raised", "etype": type(e).__name__, "msg": str(e)[:150]})
        obs["invalid_sequences"] = 1
    return viol, obs


def _tail(w, mark):
    out = []
    for e in w.log.events[mark:]:
        k = e["kind"]
        if k == "tx":
            out.append(("tx", e["raw"]))
        elif k.startswith("ind_") or k == "fh":
            out.append((k, tuple(sorted((a, repr(b)) for a, b in e.items() if a not in ("seq", "kind", "side")))))
    return out


def run_seq(case):
    viol, obs = [], {}
    rng = random.Random(case["seed"])
    prov = RecSeq(case["width"], case["start"])
    worlds = []
    try:
        for i in range(case["nh"]):
            w = World({"mode": rng.choice(["ack", "unack"]), "closure": rng.random() < 0.5, "size": rng.choice([0, 3, 9]), "seg": 4, "fs": "mem",
                       "seqw": case["width"]})
            w.S.h.seq_num_provider = prov
            w._started = 0
            worlds.append(w)
        tids_seen: list[tuple] = []
        accepted = 0
        per_handler_tids = {i: [] for i in range(len(worlds))}
        for _step in range(rng.randrange(20, 120) if not case.get("max_tx") else 400):
            if case.get("max_tx") and len(prov.calls) >= case["max_tx"] and all(x.S.h.state.name == "IDLE" for x in worlds):
                obs["top_of_sequence_number_range_reached"] = 1
                break
            i = rng.randrange(len(worlds))
            w = worlds[i]
            S = w.S
            prov.who = f"h{i}"
            r = rng.random()
            try:
                if r < 0.25 and not (case.get("max_tx") and accepted >= case["max_tx"]):
                    kind = rng.choice(["same", "same", "missing_source", "unknown_dest", "metadata_only"])
                    idle = S.h.state.name == "IDLE"
                    try:
                        res = S.put(second_request(w, kind))
                    except PROTO_EXC:
                        res = None
                    if res is True:
                        accepted += 1
                        if not idle:
                            viol.append({"clause": "busy-handler-accepted-put-request", "handler": i})
                    elif res is False and idle:
                        viol.append({"clause": "idle-handler-refused-put-request", "handler": i, "kind": kind})
                elif r < 0.3 and S.h.transaction_id is not None and S.h.num_packets_ready == 0:
                    S.cancel(S.h.transaction_id)
                else:
                    n_before = len(prov.calls)
                    tid_before = S.h.transaction_id
                    S.outbox.clear()
                    # ideal peer: acknowledge whatever is awaited
                    raw = None
                    if S.h.step.name == "WAITING_FOR_EOF_ACK" and rng.random() < 0.7:
                        t = S.cur_tid
                        raw = pdugen.raw("ACK_EOF", pdugen.conf(1, 2, t[2], idw=2, seqw=case["width"] // 8, mode="ack"))
                    elif S.h.step.name == "WAITING_FOR_FINISHED" and rng.random() < 0.7:
                        t = S.cur_tid
                        mode = "ack" if S.h.transmission_mode == TransmissionMode.ACKNOWLEDGED else "unack"
                        raw = pdugen.raw("FIN", pdugen.conf(1, 2, t[2], idw=2, seqw=case["width"] // 8, mode=mode))
                    if raw is None:
                        S.sm()
                    else:
                        prep.feed(S, raw)
                    new_calls = prov.calls[n_before:]
                    tid_after = S.h.transaction_id
                    started = [e for e in w.log.of("ind_transaction", "S")][w._started:]
                    w._started += len(started)
                    if len(new_calls) != len(started):
                        viol.append({"clause": "provider-calls-differ-from-transactions-started", "provider_calls": new_calls, "transactions_started": len(started)})
                    for (who, v), ev in zip(new_calls, started):
                        tid = ev["tid"]
                        if tid[2] != v or tid[3] != case["width"] // 8:
                            viol.append({"clause": "transaction-id-is-not-next-provider-value", "tid": tid, "provider_value": v})
                        tids_seen.append((tid[0], tid[2]))
                        per_handler_tids[i].append(tid[2])
                        # every PDU of this call carries it
                        for it in S.outbox:
                            if it["d"].get("h") and it["d"]["h"]["seq"] != v:
                                viol.append({"clause": "pdu-sequence-number-differs-from-provider-value", "pdu": wire.short(it["d"]), "provider_value": v})
            except PROTO_EXC:
                pass
            except Exception as e:  # noqa: BLE001
                viol.append({"clause": "call-raised-internal-error", "etype": type(e).__name__, "msg": str(e)[:150]})
                break
        if len(set(tids_seen)) != len(tids_seen):
            dup = sorted({t for t in tids_seen if tids_seen.count(t) > 1})
            viol.append({"clause": "two-transactions-share-a-transaction-id", "duplicates": dup[:4]})
        vals = [v for _, v in prov.calls]
        if vals != list(range(case["start"], case["start"] + len(vals))):
            viol.append({"clause": "provider-values-not-consecutive", "values": vals[:20]})
        obs["seq_runs"] = 1
        obs["transactions_started"] = len(tids_seen)
        obs["puts_accepted"] = accepted
        obs["handlers_sharing_provider"] = case["nh"]
    finally:
        for w in worlds:
            w.close()
    return viol, obs


def run_case(case):
    fn = {"table": run_table, "busy": run_busy, "invalid": run_invalid, "seq": run_seq}[case["t"]]
    viol, obs = fn(case)
    for v in viol:
        v["case"] = {k: x for k, x in case.items() if k != "cfg"}
    sig = case if any(k not in ("injection_after_end", "injection_on_idle_handler") for k in obs) else None
    sample = {"case": case, "observed": obs} if case["t"] in ("table", "seq") and obs else None
    return {"viol": viol, "obs": obs, "sig": sig, "sample": sample}


def exhaustive(tier):
    return False


REQUIRED = {"mib_entry_replaced_between_requests": 50, "segment_length_after_mib_change_checked": 200, "table_cells": 432, "puts_on_busy_handler": 100, "traces_equal_to_reference": 100, "invalid_sequences": 20, "reuse_traces_equal_to_reference": 10,
            "documented_errors_SourceFileDoesNotExist": 10, "documented_errors_NoRemoteEntityCfgFound": 10, "seq_runs": 50, "transactions_started": 200, "reused_request_objects_checked": 100, "top_of_sequence_number_range_reached": 3}
