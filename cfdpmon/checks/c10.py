"""C10 - handlers fail only with protocol exceptions and only when the caller is at fault."""
from __future__ import annotations

import random

from spacepackets.cfdp import TransactionId
from spacepackets.util import ByteFieldGenerator

from cfdppy.request import PutRequest

from .. import models, pdugen, prep, vclock, wire
from ..oracles import trace_summary
from ..world import PROTO_EXC, InternalError, RandomPlan, Runner, World, state_snapshot

PROP = "C10"
LEVEL = "exploration"
TECHNIQUE = "runtime monitoring by stateful fuzzing at the API boundary: each real handler is driven by scenario prefixes into every resting step and then receives seeded random sequences of all PDU kinds with arbitrary fields/ids/direction flags/modes, cancel/put requests, clock steps and undrained calls; a call/return recorder with before/after snapshots (public state, queued PDU bytes, filestore tree) classifies every exception (library protocol exception or not, queue really non-empty for UnretrievedPdusToBeSent, state unchanged after admission rejections); hostile loopback runs of the handler pair add the reachable-step reference set"
RULE = (
    "fuzz cases = (handler side, prepared resting step, mode, seed): 12-40 actions drawn from {9 PDU kinds x right/wrong source id, destination id, sequence "
    "number, id width x both direction flags x both modes x CRC flag x arbitrary offsets/lengths/sizes/condition codes/acked directives/NAK request lists, "
    "idle call, clock advance (alone or together with a PDU), cancel with right/wrong id, put request (same / empty file / metadata-only / missing source / "
    "unknown destination / over-long names / binary messages to user / one file name only), call without draining the queue, reset (also with a non-empty "
    "queue)}; 8 % of the directive PDUs are byte-mutated behind the header and Metadata PDUs get non-UTF-8 / NUL file names (whatever the dependency still parses "
    "is delivered); directed cases: every resting step x PDU kind x {plain, with timer expiry}, every sequence of the small alphabets up to depth 4-6, "
    "reset-with-queued-PDUs followed by every two-action continuation; loop cases = hostile loopback transfers "
    "(drop/dup/delay/reorder, cancels) which also measure which (source step, destination step) rest at call boundaries.  Non-trivial = at least one PDU "
    "reached a busy handler; distinct = distinct (case, action list) hashes"
)
ASSUMPTIONS = [
    "default fault handlers (other handler codes are C14's subject); the honest filestore never rejects an operation",
    "PDUs are built with spacepackets and delivered re-parsed from bytes (a File Data PDU with empty payload cannot be parsed by the dependency and is not generated)",
    "admission rejections = InvalidPduDirection, InvalidSourceId, InvalidDestinationId, InvalidTransactionSeqNum, NoRemoteEntityCfgFound, InvalidPduFor{Source,Dest}Handler, PduIgnoredFor{Source,Dest}",
]
ADMISSION = {"InvalidPduDirection", "InvalidSourceId", "InvalidDestinationId", "InvalidTransactionSeqNum", "NoRemoteEntityCfgFound",
             "InvalidPduForSourceHandler", "InvalidPduForDestHandler", "PduIgnoredForSource", "PduIgnoredForDest"}
CONDS = ["NO_ERROR", "POSITIVE_ACK_LIMIT_REACHED", "FILE_CHECKSUM_FAILURE", "FILE_SIZE_ERROR", "NAK_LIMIT_REACHED", "CANCEL_REQUEST_RECEIVED", "CHECK_LIMIT_REACHED",
         "KEEP_ALIVE_LIMIT_REACHED", "INVALID_TRANSMISSION_MODE", "FILESTORE_REJECTION", "INACTIVITY_DETECTED", "UNSUPPORTED_CHECKSUM_TYPE", "SUSPEND_REQUEST_RECEIVED"]
MD_OPTIONS = [{"msgs": [["raw", "80818283848586"], ["raw", "fffefdfcfb"]]}, {"msgs": [["raw", "c3283132333435"], ["orig", 5, 2, 7, 2]]}, {"msgs": [["raw", "0102030405"]]},
              {"opts": {"fs_requests": 2}}, {"opts": {"flow_label": ""}}, {"opts": {"flow_label": "0a0b", "overrides": 3}},
              {"opts": {"overrides": [["NAK_LIMIT_REACHED", "IGNORE_ERROR"], ["POSITIVE_ACK_LIMIT_REACHED", "ABANDON_TRANSACTION"], ["CHECK_LIMIT_REACHED", "IGNORE_ERROR"]]},
               "msgs": [["proxy_put_request", 3, "a", "b"]]}]


def md_options(spec):
    """TLV objects for the options of a Metadata PDU, from the same specs the put requests of the bench are built from"""
    from ..msgs import build_msgs, build_opts

    kw = build_opts(spec.get("opts"))
    out = list(kw.get("fs_requests") or []) + list(kw.get("fault_handler_overrides") or []) + ([kw["flow_label_tlv"]] if kw.get("flow_label_tlv") is not None else [])
    return out + list(build_msgs(spec["msgs"]) if spec.get("msgs") else [])


def gen_cases(tier, seed):
    cases = []
    reps = 70 if tier == "quick" else 1500
    i = 0
    for rep in range(reps):
        for side, targets in (("S", prep.SRC_TARGETS), ("D", prep.DST_TARGETS)):
            for target in targets:
                for mode in ("ack", "unack"):
                    i += 1
                    cases.append({"t": "fuzz", "side": side, "target": target, "mode": mode, "seed": seed * 1_000_003 + i})
    # directed cases: every prepared resting step receives every PDU kind as the first action (the coverage rule of finalize() must not
    # depend on the luck of the seed)
    for side, targets in (("S", prep.SRC_TARGETS), ("D", prep.DST_TARGETS)):
        for target in targets:
            for mode in ("ack", "unack"):
                for kind in pdugen.KINDS:
                    i += 1
                    cases.append({"t": "fuzz", "side": side, "target": target, "mode": mode, "seed": seed * 1_000_003 + i, "first_kind": kind})
                    # the same PDU handed over in the first call after a timer of the handler expired (timer and PDU looked at in one call)
                    cases.append({"t": "fuzz", "side": side, "target": target, "mode": mode, "seed": seed * 1_000_003 + i, "first_kind": kind, "first_tick": True})
    # bounded exhaustive enumeration: every sequence of the small alphabets up to the depth, on fresh handlers
    import itertools

    depth_d, depth_s = (4, 4) if tier == "quick" else (6, 5)
    for mode in ("ack", "unack"):
        for L in range(1, depth_d + 1):
            for scr in itertools.product(ENUM_D, repeat=L):
                if L < depth_d and mode == "unack":
                    continue  # shorter sequences are prefixes of the longer ones; kept once (ack) for the short witnesses
                i += 1
                cases.append({"t": "fuzz", "side": "D", "target": "IDLE_FRESH", "mode": mode, "seed": i % 97, "script": list(scr)})
        for scr in itertools.product(ENUM_S[1:], repeat=depth_s - 1):
            i += 1
            cases.append({"t": "fuzz", "side": "S", "target": "IDLE_FRESH", "mode": mode, "seed": i % 97, "script": ["PUT"] + list(scr)})
    # directed: a reset while PDUs are waiting in the queue, then every short continuation
    for mode in ("ack", "unack"):
        for pre in (["PUT"], ["PUT", "IDLE"], ["PUT", "IDLE", "IDLE", "IDLE", "IDLE"]):
            for scr in itertools.product(ENUM_S, repeat=2):
                i += 1
                cases.append({"t": "fuzz", "side": "S", "target": "IDLE_FRESH", "mode": mode, "seed": i % 97, "script": pre + ["RESET_UNDRAINED"] + list(scr)})
        for pre in (["MD"], ["FD0"], ["MD", "FD4"], ["MD", "FD0", "FD4", "EOF"], ["MD", "EOF"]):
            for scr in itertools.product(ENUM_D, repeat=2):
                i += 1
                cases.append({"t": "fuzz", "side": "D", "target": "IDLE_FRESH", "mode": mode, "seed": i % 97, "script": pre + ["RESET_UNDRAINED"] + list(scr)})
    nloop = 3000 if tier == "quick" else 60000
    for j in range(nloop):
        cases.append({"t": "loop", "seed": seed * 1_000_003 + 500_000 + j})
    return cases


def queue_bytes(h):
    out = []
    for holder in list(h._pdus_to_be_sent):
        try:
            out.append(bytes(holder.pack()))
        except Exception as e:  # noqa: BLE001
            out.append(f"unpackable:{type(e).__name__}")
    return out


def full_snapshot(w, ep):
    return {"state": state_snapshot(ep.h), "queue": queue_bytes(ep.h), "tree": w.tree("src" if ep.side == "S" else "dst")}


def rand_pdu(rng, w, ep, size, force_kind=None):
    if force_kind is not None:
        kind = force_kind
    elif rng.random() < 0.7:
        kind = rng.choice(["ACK_EOF", "FIN", "NAK", "NAK", "KA", "PROMPT"] if ep.side == "S" else ["MD", "FD", "FD", "FD", "EOF", "EOF", "ACK_FIN", "PROMPT"])
    else:
        kind = rng.choice(pdugen.KINDS)
    cur = ep.h.transaction_id
    seq_now = cur.seq_num.value if cur is not None else w.cfg["seq_start"]
    right = max(w.cfg["src_idw"], w.cfg["dst_idw"])
    idw = right if rng.random() < 0.8 else rng.choice([1, 2, 4])
    conf = pdugen.conf(
        1 if rng.random() < 0.9 else rng.choice([7, 2]),
        2 if rng.random() < 0.9 else rng.choice([9, 1]),
        seq_now if rng.random() < 0.85 else seq_now + rng.choice([1, 5]),
        idw=idw, seqw=rng.choice([2, 2, 2, 1]), mode=rng.choice(["ack", "unack"]) if rng.random() < 0.3 else w.cfg["mode"],
        crc=rng.random() < 0.15, large=rng.random() < 0.05,
    )
    f = {}
    if kind == "MD":
        f = {"size": rng.choice([0, size, size, 3, 100]), "cks": rng.choice(["crc32", "crc32c", "modular", "null"]), "closure": rng.random() < 0.5,
             "src_name": w.src_path.as_posix(), "dst_name": w.dst_req_path.as_posix()}
        if rng.random() < 0.1:
            f["src_name"] = None
            f["dst_name"] = None
        if rng.random() < 0.2:
            f["options"] = md_options(rng.choice(MD_OPTIONS))  # binary / reserved messages to user, filestore requests, overrides, flow label
    elif kind == "FD":
        off = rng.choice([0, 0, 1, 2, 4, 4, 6, 8, 9, 12, 30, size])
        ln = rng.choice([1, 2, 4, 4, 7, 13])
        f = {"offset": off, "data": (w.data + bytes(64))[off : off + ln] if rng.random() < 0.7 else bytes(rng.randrange(256) for _ in range(ln))}
    elif kind == "EOF":
        esize = rng.choice([size, size, 0, 4, 8, 100])
        f = {"size": esize, "cksum": models.checksum(w.cfg["cks"], w.data[:esize]) if rng.random() < 0.7 else bytes(4), "cond": rng.choice(CONDS[:1] * 3 + CONDS)}
        if f["cond"] != "NO_ERROR":
            f["fault_loc"] = bytes([0, rng.choice([1, 2])])
    elif kind == "FIN":
        f = {"cond": rng.choice(CONDS[:1] * 3 + CONDS), "delivery": rng.choice(["DATA_COMPLETE", "DATA_INCOMPLETE"]),
             "fstatus": rng.choice(["FILE_RETAINED", "DISCARDED_DELIBERATELY", "DISCARDED_FILESTORE_REJECTION", "FILE_STATUS_UNREPORTED"])}
        if f["cond"] != "NO_ERROR" and rng.random() < 0.7:
            f["fault_loc"] = bytes([0, rng.choice([1, 2])])
    elif kind in ("ACK_EOF", "ACK_FIN"):
        f = {"cond": rng.choice(CONDS), "status": rng.choice(["UNDEFINED", "ACTIVE", "TERMINATED", "UNRECOGNIZED"])}
    elif kind == "NAK":
        reqs = []
        for _ in range(rng.choice([0, 1, 1, 2, 4])):
            a, b = rng.randrange(0, size + 6), rng.randrange(0, size + 6)
            if rng.random() < 0.85 and a > b:
                a, b = b, a
            reqs.append((a, b) if rng.random() < 0.85 else (0, 0))
        f = {"scope": (0, rng.choice([size, 0, 100])), "reqs": reqs}
    elif kind == "KA":
        f = {"progress": rng.choice([0, size, 1 << 20])}
    ts = None if rng.random() < 0.75 else rng.random() < 0.5
    try:
        raw = pdugen.raw(kind, conf, f, towards_sender=ts)
    except Exception:  # noqa: BLE001  (a field combination the dependency refuses to build)
        return None, None, None
    if not conf.crc_flag and kind != "FD" and rng.random() < 0.08:
        # (File Data PDUs are left alone: a mutated offset of gigabytes only makes the filestore of the bench slow)
        # byte-level mutation of the data field (behind the fixed header): whatever the dependency still parses is a PDU for the handlers
        b = bytearray(raw)
        lo = 4 + 2 * idw + conf.transaction_seq_num.byte_len
        for _ in range(rng.choice([1, 1, 2, 3])):
            if len(b) > lo:
                b[rng.randrange(lo, len(b))] = rng.randrange(256)
        if rng.random() < 0.25:
            # ... and of the flag / length-of-field bytes of the fixed header (not of the data field length)
            b[rng.choice([0, 3])] ^= 1 << rng.randrange(8)
        raw = bytes(b)
        f = dict(f, mutated_bytes=True)
    if kind == "MD" and f.get("src_name") and not conf.crc_flag and rng.random() < 0.15:
        # file names are byte strings on the wire: here one which is not valid UTF-8 (same length, so the PDU stays well-formed)
        name = w.src_path.name.encode() if rng.random() < 0.5 else w.dst_req_path.name.encode()
        if len(name) >= 3 and raw.count(name) >= 1:
            raw = raw.replace(name, (b"\xff\xfe" if rng.random() < 0.5 else b"n\x00") + name[2:], 1)  # not UTF-8 / an embedded NUL byte
            f = dict(f, binary_file_name=True)
    return kind, raw, {"kind": kind, "conf": [conf.source_entity_id.value, conf.dest_entity_id.value, conf.transaction_seq_num.value, idw], "ts": ts,
                       "f": {k: (v.hex() if isinstance(v, (bytes, bytearray)) else v) for k, v in f.items() if k not in ("src_name", "dst_name", "options")}, "options": len(f.get("options") or [])}


# alphabet of the bounded exhaustive enumeration: well-formed PDUs of the current transaction (right ids, the transfer's own mode) and API actions
ENUM_D = ["MD", "FD0", "FD4", "EOF", "EOFC", "ACKFIN", "TICK", "IDLE", "CANCEL"]
ENUM_S = ["PUT", "IDLE", "ACKEOF", "FIN", "NAK04", "NAKMD", "NAKBAD", "TICK", "CANCEL", "KA"]


def scripted_action(sym, w, ep, size):
    cur = ep.h.transaction_id
    seq_now = cur.seq_num.value if cur is not None else w.cfg["seq_start"]
    conf = pdugen.conf(1, 2, seq_now, idw=2, seqw=2, mode=w.cfg["mode"])
    f, kind = None, None
    if sym in ("TICK", "IDLE", "PUT", "NODRAIN", "RESET_UNDRAINED"):
        return {"TICK": "tick", "IDLE": "idle", "PUT": "put_same", "NODRAIN": "nodrain", "RESET_UNDRAINED": "reset_undrained"}[sym], None, None, sym
    if sym == "CANCEL":
        return "cancel_right", None, None, sym
    if sym == "MD":
        kind, f = "MD", {"size": size, "cks": w.cfg["cks"], "closure": w.cfg["closure"], "src_name": w.src_path.as_posix(), "dst_name": w.dst_req_path.as_posix()}
    elif sym in ("FD0", "FD4"):
        off = int(sym[2:])
        kind, f = "FD", {"offset": off, "data": w.data[off : off + 4]}
    elif sym == "EOF":
        kind, f = "EOF", {"size": size, "cksum": models.checksum(w.cfg["cks"], w.data)}
    elif sym == "EOFC":
        kind, f = "EOF", {"size": 4, "cksum": models.checksum(w.cfg["cks"], w.data[:4]), "cond": "CANCEL_REQUEST_RECEIVED", "fault_loc": b"\x00\x01"}
    elif sym == "ACKFIN":
        kind, f = "ACK_FIN", {}
    elif sym == "ACKEOF":
        kind, f = "ACK_EOF", {}
    elif sym == "FIN":
        kind, f = "FIN", {}
    elif sym == "NAK04":
        kind, f = "NAK", {"scope": (0, size), "reqs": [(0, 4)]}
    elif sym == "NAKMD":
        kind, f = "NAK", {"scope": (0, size), "reqs": [(0, 0)]}
    elif sym == "NAKBAD":
        kind, f = "NAK", {"scope": (0, size), "reqs": [(4, size + 9)]}
    elif sym == "KA":
        kind, f = "KA", {"progress": 4}
    return "pdu", kind, pdugen.raw(kind, conf, f), sym


def frames_of(w):
    ex = w.log.of("exc")
    return ex[-1]["frames"] if ex else []


def run_fuzz(case):
    rng = random.Random(case["seed"])
    size = rng.choice([8, 9, 12]) if case.get("script") is None else 8
    cfg = {"mode": case["mode"], "closure": rng.random() < 0.5, "size": size, "seg": 4, "imm_nak": rng.random() < 0.5, "fs": rng.choice(["mem", "mem", "native"]) if case.get("script") is None else "mem",
           "ack_limit": 2, "nak_limit": 2, "check_limit": 2, "cks": rng.choice(["crc32", "crc32", "modular", "null"]), "disp": rng.random() < 0.5}
    if case.get("script") is None and rng.random() < 0.4:
        # entity ids of different widths (the PDUs carry the wider one)
        cfg["src_idw"], cfg["dst_idw"] = rng.choice([(1, 2), (2, 1), (4, 2), (2, 4), (1, 1), (4, 4), (8, 1)])
    viol, obs, keys = [], {}, {"fuzzed": []}
    actions_log = []
    with World(cfg) as w:
        ep = w.S if case["side"] == "S" else w.D
        try:
            ok = prep.src_to(w, case["target"]) if case["side"] == "S" else prep.dst_to(w, case["target"])
        except Exception as e:  # noqa: BLE001
            ok = False
            obs["prep_raised"] = 1
        if not ok:
            obs["prep_did_not_reach_step"] = 1
        ep.outbox.clear()
        script = case.get("script")
        nact = len(script) if script is not None else rng.randrange(12, 40)
        reached_busy = 0
        for ai in range(nact):
            r = rng.random()
            act = None
            raw = kind = desc = None
            if script is not None:
                act, kind, raw, desc = scripted_action(script[ai], w, ep, size)
            elif ai == 0 and case.get("first_kind"):
                kind, raw, desc = rand_pdu(rng, w, ep, size, force_kind=case["first_kind"])
                if raw is None:
                    kind, raw, desc = rand_pdu(random.Random(case["seed"] + 1), w, ep, size, force_kind=case["first_kind"])
                if raw is None:
                    continue
                act = "pdu"
                if case.get("first_tick"):
                    vclock.advance_to_next_expiry()
                    actions_log.append("clock")
                    obs["pdus_together_with_timer_expiry"] = obs.get("pdus_together_with_timer_expiry", 0) + 1
            elif r < 0.68:
                kind, raw, desc = rand_pdu(rng, w, ep, size)
                if raw is None:
                    continue
                act = "pdu"
                if rng.random() < 0.08:
                    vclock.advance_to_next_expiry()
                    actions_log.append("clock")
                    obs["pdus_together_with_timer_expiry"] = obs.get("pdus_together_with_timer_expiry", 0) + 1
            elif r < 0.76:
                act = "idle"
            elif r < 0.84:
                act = "tick"
            elif r < 0.89:
                act = "cancel_right" if rng.random() < 0.7 else "cancel_wrong"
            elif r < 0.94:
                act = "put" if case["side"] == "S" else "idle"
            elif r < 0.98:
                act = "nodrain"
            else:
                act = "reset"
            step_name = ep.h.step.name
            before = full_snapshot(w, ep)
            qlen_entry = len(ep.h._pdus_to_be_sent)
            exc = None
            try:
                if act == "pdu":
                    try:
                        pdu = wire.parse(raw)
                    except wire.WireError:
                        obs["generated_pdu_not_parsable_by_dependency"] = obs.get("generated_pdu_not_parsable_by_dependency", 0) + 1
                        continue
                    actions_log.append(desc)
                    if isinstance(desc, dict) and desc.get("f", {}).get("mutated_bytes"):
                        obs["byte_mutated_pdus_accepted_by_the_parser"] = obs.get("byte_mutated_pdus_accepted_by_the_parser", 0) + 1
                    if isinstance(desc, dict) and desc.get("options"):
                        obs["metadata_pdus_with_options"] = obs.get("metadata_pdus_with_options", 0) + 1
                    if isinstance(desc, dict) and desc.get("f", {}).get("binary_file_name"):
                        obs["metadata_pdus_with_non_utf8_file_name"] = obs.get("metadata_pdus_with_non_utf8_file_name", 0) + 1
                    keys["fuzzed"].append(f"{case['side']}|{step_name}|{kind}")
                    if before["state"][0] == "BUSY":
                        reached_busy += 1
                    ep.sm(pdu, {"kind": kind})
                elif act == "idle":
                    actions_log.append("idle")
                    ep.sm()
                elif act == "tick":
                    actions_log.append("tick")
                    vclock.advance_to_next_expiry()
                    ep.sm()
                elif act in ("cancel_right", "cancel_wrong"):
                    actions_log.append(act)
                    tid = ep.h.transaction_id
                    if act == "cancel_wrong" or tid is None:
                        tid = TransactionId(ByteFieldGenerator.from_int(2, 1), ByteFieldGenerator.from_int(2, 4242))
                    ep.cancel(tid)
                elif act == "put_same":
                    actions_log.append("put")
                    ep.put(w.put_request())
                elif act == "put":
                    pk = rng.choice(["same", "empty", "md_only", "missing", "unknown_dest", "long_source_name", "long_dest_name", "binary_msgs", "source_without_dest", "dest_without_source", "with_options"])
                    if pk.startswith("long_") and w.cfg["fs"] != "mem":
                        pk = "same"  # (the host file system of the native filestore has its own limit per path component)
                    actions_log.append("put:" + pk)
                    if pk == "same":
                        req = w.put_request()
                    elif pk == "with_options":
                        # filestore requests, fault handler overrides, a flow label (also an empty one), reserved and binary messages
                        from ..msgs import build_msgs, build_opts

                        spec = rng.choice(MD_OPTIONS)
                        req = PutRequest(w.dst_id, w.src_path, w.dst_req_path, None, None, msgs_to_user=build_msgs(spec["msgs"]) if spec.get("msgs") else None,
                                         **build_opts(spec.get("opts")))
                        obs["put_requests_with_options"] = obs.get("put_requests_with_options", 0) + 1
                    elif pk == "unknown_dest":
                        req = PutRequest(ByteFieldGenerator.from_int(2, 77), w.src_path, w.dst_req_path, None, None)
                    elif pk == "md_only":
                        req = PutRequest(w.dst_id, None, None, None, None)
                    elif pk in ("source_without_dest", "dest_without_source"):
                        # only one of the two file names is given (neither a file transfer nor a metadata-only request)
                        req = PutRequest(w.dst_id, w.src_path if pk == "source_without_dest" else None, None if pk == "source_without_dest" else w.dst_req_path, None, None)
                        obs["put_requests_with_one_file_name_only"] = obs.get("put_requests_with_one_file_name_only", 0) + 1
                    elif pk == "binary_msgs":
                        # messages to user are arbitrary binary data (here: not UTF-8, longer than the reserved 'cfdp' prefix)
                        from spacepackets.cfdp.tlv import MessageToUserTlv

                        md_only = rng.random() < 0.4  # (also as a metadata-only request)
                        req = PutRequest(w.dst_id, None if md_only else w.src_path, None if md_only else w.dst_req_path, None, None,
                                         msgs_to_user=[MessageToUserTlv(bytes(rng.randrange(128, 256) for _ in range(rng.choice([5, 6, 40])))) for _ in range(rng.choice([1, 3]))])
                        obs["put_requests_with_binary_messages_to_user"] = obs.get("put_requests_with_binary_messages_to_user", 0) + 1
                    elif pk in ("long_source_name", "long_dest_name"):
                        # an existing file whose path name does not fit the 255 byte LV field of the Metadata PDU (or such a destination name)
                        # (also: fewer than 255 characters but more than 255 bytes in UTF-8)
                        long_path = w.root / "srcdir" / rng.choice(["n" * 230, "n" * 256, "n" * 300, "\u00e9" * 120, "\u4e2d" * 80])
                        w.write_raw("src", long_path, b"abc")
                        req = PutRequest(w.dst_id, long_path, w.dst_req_path, None, None) if pk == "long_source_name" else PutRequest(
                            w.dst_id, w.src_path, w.root / "dstdir" / ("m" * 300), None, None)
                        obs["put_requests_with_over_long_names"] = obs.get("put_requests_with_over_long_names", 0) + 1
                    else:
                        path = w.root / "srcdir" / ("empty.bin" if pk == "empty" else "missing.bin")
                        if pk == "empty":
                            w.write_raw("src", path, b"")
                        req = PutRequest(w.dst_id, path, w.dst_req_path, None, None)
                    ep.put(req)
                elif act == "nodrain":
                    actions_log.append("nodrain")
                    ep.autodrain = False
                    try:
                        ep.sm()
                    finally:
                        ep.autodrain = True
                elif act == "reset":
                    actions_log.append("reset")
                    ep.reset()
                    ep.drain()
                elif act == "reset_undrained":
                    # the user resets the handler while PDUs are still waiting in its queue and only then collects what is left
                    actions_log.append("reset_undrained")
                    ep.autodrain = False
                    try:
                        ep.sm()
                    finally:
                        ep.autodrain = True
                    ep.reset()
                    ep.drain()
                    obs["resets_with_undrained_queue"] = obs.get("resets_with_undrained_queue", 0) + 1
            except PROTO_EXC as e:
                exc = e
            except Exception as e:  # noqa: BLE001
                fr = frames_of(w)
                viol.append({"clause": "internal-error-leaked-from-public-call", "etype": type(e).__name__, "msg": str(e)[:160], "frames": fr,
                             "api": "state_machine" if act in ("pdu", "idle", "tick", "nodrain") else act, "pdu": desc, "step_before": step_name,
                             "state_before": before["state"][0]})
                break
            ep.outbox.clear()
            if exc is not None:
                name = type(exc).__name__
                obs["proto_" + name] = obs.get("proto_" + name, 0) + 1
                if name == "UnretrievedPdusToBeSent" and qlen_entry == 0:
                    viol.append({"clause": "unretrieved-pdus-error-although-queue-was-empty-at-entry", "action": act, "pdu": desc, "step_before": step_name})
                    break
                if name in ADMISSION and act == "pdu":
                    # drain happened in the finally of sm(): compare against the queue before (rejected PDU must not have changed it)
                    after_state = state_snapshot(ep.h)
                    after_tree = w.tree("src" if ep.side == "S" else "dst")
                    emitted = [e["raw"] for e in w.log.events[-(len(before["queue"]) + 4):] if e["kind"] == "tx"]
                    changed = {}
                    if after_state[:5] != before["state"][:5]:
                        changed["state"] = (before["state"][:5], after_state[:5])
                    if after_tree != before["tree"]:
                        changed["filestore"] = True
                    drained = [x["raw"] for x in w.log.events if x["kind"] == "tx" and x["seq"] > call_seq_of(w)]
                    if drained != before["queue"]:
                        changed["queued_pdus"] = (len(before["queue"]), len(drained))
                    if changed:
                        viol.append({"clause": "rejected-pdu-changed-handler", "exception": name, "changed": changed, "pdu": desc, "step_before": step_name})
                        break
                    obs["admission_rejections_checked"] = obs.get("admission_rejections_checked", 0) + 1
            else:
                obs["calls_returned"] = obs.get("calls_returned", 0) + 1
        obs["fuzz_cases"] = 1
        if script is not None:
            obs["enumerated_sequences"] = 1
        obs["pdus_to_busy_handler"] = reached_busy
        for v in viol:
            v["case"] = case
            v["actions"] = actions_log[-12:]
        sig = [case["side"], case["target"], case["mode"], actions_log] if reached_busy else None
        return {"viol": viol, "obs": obs, "keys": keys, "sig": sig, "sample": {"case": case, "actions": actions_log[:10]} if reached_busy > 10 else None}


def call_seq_of(w):
    calls = w.log.of("call")
    return calls[-1]["seq"] if calls else -1


def run_loop(case):
    rng = random.Random(case["seed"])
    seg = rng.choice([1, 3, 4, 8])
    cfg = {"mode": rng.choice(["ack", "ack", "unack"]), "closure": rng.random() < 0.5, "imm_nak": rng.random() < 0.5, "seg": seg,
           "size": rng.choice([0, seg, 3 * seg + 1, 9 * seg + 2]), "crc": rng.random() < 0.3, "cks": rng.choice(["crc32", "crc32c", "modular", "null"]),
           "ack_limit": rng.choice([2, 3]), "nak_limit": rng.choice([2, 3]), "check_limit": 2, "disp": rng.random() < 0.3,
           "maxpkt": rng.choice([64, 64, 36, 40]) if seg <= 8 else 64}
    if rng.random() < 0.3:
        cfg.update(rng.choice(MD_OPTIONS))  # the put request carries messages to user (binary ones too) and / or other options
    viol, obs = [], {}
    with World(cfg) as w:
        obs["loop_cases_with_put_request_options"] = int(bool(cfg.get("opts") or cfg.get("msgs")))
        sc = rng.choice([0.1, 0.25, 0.4])
        plan = RandomPlan(case["seed"], {"drop": 0.3 * sc, "dup": 0.2 * sc, "delay": 0.2 * sc, "quiet": 0.05 * sc, "late": 0.05 * sc})
        actions = {}
        if rng.random() < 0.25:
            actions[rng.randrange(1, 14)] = [("cancel", rng.choice("SD"))]
        r = Runner(w, plan=plan, max_expiries=30, max_rounds=2500, actions=actions, pacing=rng.choice([None, None, {"src_calls": 3}, {"src_calls": 6}, {"dst_calls": 3}, {"src_calls": 2, "dst_calls": 2}, {"dst_idle": 2}, {"src_idle": 2, "dst_calls": 2}]))
        try:
            w.put()
            outcome = r.run()
        except InternalError as e:
            ex = w.log.of("exc")[-1]
            viol.append({"clause": "internal-error-leaked-from-public-call", "etype": type(e.exc).__name__, "msg": str(e.exc)[:160], "frames": ex["frames"],
                         "api": ex["api"], "side": e.side, "step_before": ex.get("after", [None, None])[1], "loopback": True,
                         "faults": [(a[1], a[2]) for a in plan.applied][:30], "trace": trace_summary(w, r, 60)})
            outcome = "internal-error"
        for name in [x[1] for x in r.proto_exc]:
            obs["loop_proto_" + name] = obs.get("loop_proto_" + name, 0) + 1
        # UnretrievedPdusToBeSent must never occur in a loopback which always drains
        if any(x[1] == "UnretrievedPdusToBeSent" for x in r.proto_exc):
            viol.append({"clause": "unretrieved-pdus-error-although-queue-was-empty-at-entry", "loopback": True, "trace": trace_summary(w, r, 60)})
        obs["loop_cases"] = 1
        obs["loop_outcome_" + outcome] = 1
        keys = {"rest_steps": [f"S|{a}" for a, _ in r.steps_seen] + [f"D|{b}" for _, b in r.steps_seen]}
        for v in viol:
            v["case"] = case
        return {"viol": viol, "obs": obs, "keys": keys, "sig": [case["seed"], [(a[0], a[1]) for a in plan.applied]] if plan.applied else None, "sample": None}


def run_case(case):
    return run_fuzz(case) if case["t"] == "fuzz" else run_loop(case)


def finalize(ctx):
    """every step which rests at a call boundary in the loopback runs must have been fuzzed with every PDU kind"""
    inc = []
    rest = set(ctx["keys"].get("rest_steps", []))
    fuzzed = set(ctx["keys"].get("fuzzed", []))
    missing = []
    for rs in sorted(rest):
        for kind in pdugen.KINDS:
            if f"{rs}|{kind}" not in fuzzed:
                missing.append(f"{rs}|{kind}")
    if missing:
        inc.append(f"resting steps not fuzzed with every PDU kind: {missing[:12]} ({len(missing)} combinations)")
    if not rest:
        inc.append("no loopback run measured the resting steps")
    return [], inc


REQUIRED = {"put_requests_with_one_file_name_only": 50, "metadata_pdus_with_non_utf8_file_name": 50, "put_requests_with_binary_messages_to_user": 50, "put_requests_with_over_long_names": 50, "pdus_together_with_timer_expiry": 500, "resets_with_undrained_queue": 500, "enumerated_sequences": 5000, "fuzz_cases": 200, "pdus_to_busy_handler": 2000, "admission_rejections_checked": 500, "loop_cases": 200, "calls_returned": 2000, "loop_cases_with_put_request_options": 100, "metadata_pdus_with_options": 50, "put_requests_with_options": 50}
