"""C09 - file checksums are correct for every content, prefix length and chunking."""
from __future__ import annotations

import hashlib
import os
import random
import shutil
import tempfile
from pathlib import Path

from cfdppy.filestore import NativeFilestore

from .. import models
from ..world import Plan, CKS, InternalError, Runner, World, _scratch_base

PROP = "C09"
LEVEL = "exploration"
TECHNIQUE = "runtime monitoring of NativeFilestore.calculate_checksum/verify_checksum against independent reference checksums (zlib CRC-32, table and bitwise CRC-32C, word-sum modular, zeros) over exhaustive small (length, prefix, chunk) triples and random large inputs; EOF PDUs of real sender runs (normal and cancelled) checked against the same models"
RULE = (
    "function level: for contents of length L (random, zeros, ones, single-bit, 0xFF-heavy) every prefix 0..L x every chunk length 1..L+1 x 4 checksum types "
    "(quick: L<=20, thorough: L<=48), plus random byte strings up to 20 kB with random prefix/chunk (incl. the default chunk length 4096 on multi-chunk files); verify_checksum must accept exactly the model value "
    "(the 32 single-bit flips of it must be rejected).  sender level: EOF PDUs emitted by the real source handler (all 4 types, normal EOF and EOF(cancel) at "
    "every cancel point) must carry model(type, data[:EOF size]).  Non-trivial = prefix>0; distinct = distinct (content hash, type, prefix, chunk)"
)
ASSUMPTIONS = ["reference CRC-32C implemented twice (table/bitwise) and cross-checked against the known check value 0xE3069283 for '123456789'"]
TYPES = ["null", "modular", "crc32", "crc32c"]


def contents_for(L, rng):
    out = [rng.randbytes(L), b"\0" * L, b"\xff" * L]
    if L:
        b = bytearray(L)
        b[rng.randrange(L)] = 1 << rng.randrange(8)
        out.append(bytes(b))
    return out


def gen_cases(tier, seed):
    maxL = 20 if tier == "quick" else 48
    cases = [{"kind": "exh", "L": L, "seed": seed} for L in range(maxL + 1)]
    nr = 40 if tier == "quick" else 400
    cases += [{"kind": "rand", "seed": seed * 7919 + i, "n": 60} for i in range(nr)]
    for cks in TYPES:
        for size in (0, 1, 5, 8, 13, 37):
            for mode in ("ack", "unack"):
                cases.append({"kind": "eof", "cks": cks, "size": size, "mode": mode, "seed": seed})
    # long-lived sender: several transfers of different files through the same handler / user / filestore objects, with lost ACK(EOF)s
    # (the EOF is generated again at the timer expiry) and cancels
    nseq = 400 if tier == "quick" else 6000
    for i in range(nseq):
        cases.append({"kind": "eofseq", "seed": seed * 7919 + 100_000 + i})
    return cases


def one(fs, path, data, typ, n, chunk, viol, sigs, obs, flips):
    try:
        got = fs.calculate_checksum(CKS[typ], path, n, chunk)
    except Exception as e:  # noqa: BLE001
        viol.append({"clause": "calculate_checksum-raised", "etype": type(e).__name__, "type": typ, "len": len(data), "prefix": n, "chunk": chunk})
        return
    want = models.checksum(typ, data[:n])
    obs["calls"] += 1
    obs["calls_" + typ] += 1
    if not isinstance(got, (bytes, bytearray)) or bytes(got) != want:
        if len(viol) < 5:
            viol.append({"clause": "checksum-differs-from-model", "type": typ, "len": len(data), "prefix": n, "chunk": chunk,
                         "got": bytes(got).hex() if isinstance(got, (bytes, bytearray)) else repr(got), "want": want.hex(), "data": data[:64].hex()})
    if n > 0:
        sigs.add(hashlib.sha1(data + f"|{typ}|{n}|{chunk}".encode()).hexdigest()[:16])
    if flips:
        ok = fs.verify_checksum(want, CKS[typ], path, n, chunk)
        obs["verify_calls"] += 1
        if ok is not True:
            viol.append({"clause": "verify-rejects-correct-value", "type": typ, "len": len(data), "prefix": n, "chunk": chunk})
        for bit in range(32):
            bad = (int.from_bytes(want, "big") ^ (1 << bit)).to_bytes(4, "big")
            obs["verify_calls"] += 1
            if fs.verify_checksum(bad, CKS[typ], path, n, chunk) is not False:
                viol.append({"clause": "verify-accepts-wrong-value", "type": typ, "len": len(data), "prefix": n, "chunk": chunk, "bit": bit})
                break


def run_case(case):
    from collections import Counter

    assert models.crc32c(b"123456789") == 0xE3069283 == models.crc32c_bitwise(b"123456789")
    obs = Counter()
    viol: list = []
    sigs: set = set()
    sample = None
    if case["kind"] in ("exh", "rand"):
        d = Path(tempfile.mkdtemp(prefix="cfdpmon-c09-", dir=_scratch_base()))
        try:
            fs = NativeFilestore()
            path = d / "f.bin"
            if case["kind"] == "exh":
                L = case["L"]
                rng = random.Random(case["seed"] * 1000 + L)
                for data in contents_for(L, rng):
                    path.write_bytes(data)
                    for typ in TYPES:
                        for n in range(L + 1):
                            for chunk in range(1, L + 2):
                                one(fs, path, data, typ, n, chunk, viol, sigs, obs, flips=(chunk in (1, L + 1) and n in (0, L // 2, L)))
                sample = {"L": L, "contents": 4 if L else 3, "prefixes": L + 1, "chunks": L + 1}
            else:
                rng = random.Random(case["seed"])
                for _ in range(case["n"]):
                    L = rng.choice([rng.randrange(0, 64), rng.randrange(64, 4097), rng.randrange(4097, 20000)])
                    data = rng.randbytes(L)
                    if rng.random() < 0.2:
                        data = bytes(L)
                    assert models.crc32c(data[:200]) == models.crc32c_bitwise(data[:200])
                    path.write_bytes(data)
                    for typ in TYPES:
                        n = rng.choice([0, L, rng.randrange(L + 1)])
                        chunk = rng.choice([1, 2, 3, 4, 5, 7, 1024, 4096, 4096, 4001, L + 1, rng.randrange(1, L + 2)])
                        if L > 8000 and chunk < 8:
                            chunk = 4096  # keep the number of reads bounded for large files
                        one(fs, path, data, typ, n, chunk, viol, sigs, obs, flips=rng.random() < 0.3)
                        sample = {"L": L, "type": typ, "prefix": n, "chunk": chunk}
        finally:
            shutil.rmtree(d, ignore_errors=True)
    elif case["kind"] == "eofseq":
        rng = random.Random(case["seed"])
        cks = rng.choice(TYPES)
        base = {"mode": rng.choice(["ack", "ack", "unack"]), "cks": cks, "size": 0, "seg": rng.choice([3, 4, 8]), "closure": rng.random() < 0.5, "fs": rng.choice(["native", "mem"]),
                "ack_limit": 4}
        with World(base) as w:
            for ti in range(rng.choice([2, 3, 4])):
                size = rng.choice([0, 1, 5, 13, 29])
                w.data = rng.randbytes(size)
                w.cfg["size"] = size
                w.write_raw("src", w.src_path, w.data)
                drops = {"n": rng.choice([0, 1, 2]), "silent": rng.random() < 0.25}

                class DropAckEof(Plan):
                    def on_emit(self, idx, item):
                        if drops["silent"] and item["side"] == "D":
                            # the receiver is not heard at all: every EOF (also an EOF (cancel)) is generated again at each timer expiry
                            self.applied.append((idx, "drop", item["d"].get("kind"), "D"))
                            return []
                        if item["d"].get("kind") == "ACK_EOF" and drops["n"] > 0:
                            drops["n"] -= 1
                            self.applied.append((idx, "drop", "ACK_EOF", item["side"]))
                            return []
                        return [("now", item["raw"])]

                actions = {}
                if rng.random() < 0.3:
                    actions[rng.randrange(1, 8)] = [("cancel", "S")]
                mark = w.log.seq
                r = Runner(w, plan=DropAckEof(), actions=actions, max_expiries=12)
                try:
                    w.put()
                    r.run()
                except InternalError as e:
                    viol.append({"clause": "sender-run-raised", "etype": type(e.exc).__name__, "case": base, "transfer": ti})
                    break
                neof = 0
                for ev in w.log.of("tx", "S"):
                    d = ev["d"]
                    if ev["seq"] < mark or d.get("kind") != "EOF":
                        continue
                    neof += 1
                    obs["eof_pdus_checked"] += 1
                    obs["eof_" + d["cond"]] += 1
                    if ti > 0:
                        obs["eof_pdus_on_reused_sender"] += 1
                    want = models.checksum(cks, w.data[: d["size"]]).hex()
                    if d["size"] > len(w.data) or d["cksum"] != want:
                        viol.append({"clause": "eof-checksum-differs-from-model", "cks": cks, "eof": {k: d[k] for k in ("cond", "size", "cksum")},
                                     "want": want, "file_size": len(w.data), "transfer_on_this_sender": ti, "eof_number_in_transfer": neof})
                    sigs.add(hashlib.sha1(f"eofseq|{case['seed']}|{ti}|{neof}".encode()).hexdigest()[:16])
                if neof > 1:
                    obs["eof_regenerated_after_timer"] += neof - 1
                    if any(ev["seq"] >= mark and ev["d"].get("kind") == "EOF" and ev["d"].get("cond") != "NO_ERROR" and 0 < ev["d"]["size"] < len(w.data)
                           for ev in w.log.of("tx", "S")):
                        obs["eof_cancel_mid_file_regenerated"] += 1
                for ep in (w.S, w.D):
                    if ep.h.state.name != "IDLE":
                        ep.reset()
                        ep.drain()
                    ep.outbox.clear()
                sample = {"cks": cks, "transfers": ti + 1, "eofs_in_last": neof}
    else:
        # sender level: harvest EOF PDUs for a normal run and for a cancel before every round
        base = {"mode": case["mode"], "cks": case["cks"], "size": case["size"], "seg": 4, "closure": case["mode"] == "unack", "content": case["seed"] % 5}
        nrounds = case["size"] // 4 + 6
        for cancel_at in [None] + list(range(nrounds)):
            with World(base) as w:
                actions = {} if cancel_at is None else {cancel_at: [("cancel", "S")]}
                r = Runner(w, actions=actions, max_expiries=10)
                try:
                    w.put()
                    r.run()
                except InternalError as e:
                    viol.append({"clause": "sender-run-raised", "etype": type(e.exc).__name__, "case": base, "cancel_at": cancel_at})
                    continue
                for ev in w.log.of("tx", "S"):
                    d = ev["d"]
                    if d.get("kind") != "EOF":
                        continue
                    obs["eof_pdus_checked"] += 1
                    obs["eof_" + d["cond"]] += 1
                    want = models.checksum(case["cks"], w.data[: d["size"]]).hex()
                    if d["size"] > len(w.data) or d["cksum"] != want:
                        viol.append({"clause": "eof-checksum-differs-from-model", "cks": case["cks"], "eof": {k: d[k] for k in ("cond", "size", "cksum")},
                                     "want": want, "file_size": len(w.data), "cancel_at": cancel_at})
                    if d["size"] > 0:
                        sigs.add(hashlib.sha1(f"eof|{case['cks']}|{case['mode']}|{case['size']}|{d['size']}|{d['cond']}".encode()).hexdigest()[:16])
                    sample = {"eof": {k: d[k] for k in ("cond", "size", "cksum")}, "cks": case["cks"], "file_size": len(w.data)}
    return {"viol": viol[:6], "sig": None, "sigs": sorted(sigs), "obs": dict(obs), "sample": sample}


def exhaustive(tier):
    return False


REQUIRED = {"calls_null": 100, "calls_modular": 100, "calls_crc32": 100, "calls_crc32c": 100, "verify_calls": 1000,
            "eof_pdus_checked": 50, "eof_pdus_on_reused_sender": 50, "eof_regenerated_after_timer": 20, "eof_cancel_mid_file_regenerated": 3, "eof_CANCEL_REQUEST_RECEIVED": 10, "eof_NO_ERROR": 10}
