"""C13 - unacknowledged transfers tolerate the EOF overtaking file data up to the check limit."""
from __future__ import annotations

import itertools

from .. import models, pdugen, prep, vclock, wire
from ..oracles import trace_summary
from ..world import PROTO_EXC, World
from .c04 import Probe, last_tx

PROP = "C13"
LEVEL = "fault_enumeration"
TECHNIQUE = "runtime monitoring in lock-step with a check-limit model on virtual time: the real destination handler receives Metadata, a subset of the File Data and the EOF; the late File Data PDUs are delivered in enumerated slots between check-timer expiries; every expiry is probed 1 ms early and on time and completion / Check-Limit fault / file content are compared with the model; sender-side closure timer scenario likewise"
RULE = (
    "receiver cases = file of n<=4 segments x every non-empty subset S overtaken by the EOF x arrival slot of each late PDU in {before expiry 1..L+1, never} x "
    "order within a slot x check limit L in {1,2,3} x closure x {CRC-32, CRC-32C} (complete enumeration within these bounds; quick: n<=3).  "
    "sender cases = closure requested, Finished PDU arriving before / never before the check timer.  Non-trivial = EOF really overtook data; distinct = distinct cases"
)
ASSUMPTIONS = [
    "success is accepted anywhere between the moment the last outstanding byte is stored and the next check-timer expiry (the statement asks for re-verification at the expiry, it does not forbid an earlier one)",
    "check timers come from the harness' CheckTimerProvider (Countdown on the virtual clock)",
]
IVL = 1000


def gen_cases(tier, seed):
    cases = []
    maxn = 3 if tier == "quick" else 4
    for n in range(1, maxn + 1):
        for L in (1, 2, 3):
            slots = list(range(1, L + 2)) + ["never"]
            for r in range(1, n + 1):
                for S in itertools.combinations(range(n), r):
                    for arr in itertools.product(slots, repeat=len(S)):
                        for closure, cks in (((False, "crc32"), (True, "crc32c")) if (tier == "quick" and n == 3) else itertools.product((False, True), ("crc32", "crc32c"))):
                            cases.append({"t": "recv", "n": n, "L": L, "S": list(S), "arr": list(arr), "closure": closure, "cks": cks,
                                          "order": "desc" if (sum(S) + L) % 2 else "asc"})
    # timer/PDU race: the late segment is handed over in the very call that detects the e-th expiry
    for n in (1, 2, 3):
        for L in (1, 2, 3):
            for i in range(n):
                for e in range(1, L + 1):
                    for closure, cks in itertools.product((False, True), ("crc32", "crc32c")):
                        cases.append({"t": "recv_race", "n": n, "L": L, "i": i, "e": e, "closure": closure, "cks": cks})
    for size in (0, 9):
        for when in ("never", "before", "at_deadline"):
            cases.append({"t": "send", "size": size, "when": when})
            # a paced link: virtual time passes between the sender's calls while the file is sent (less than / exactly / more than a check period)
            for pace in (IVL // 7, IVL, IVL + 3):
                cases.append({"t": "send", "size": size if size else 17, "when": when, "pace": pace})
            # the same sender completed an unacknowledged closure transfer before, when the user's provider still handed out another interval
            for prev in (IVL // 4, IVL * 6):
                cases.append({"t": "send", "size": size, "when": when, "prev_ivl_ms": prev})
            cases.append({"t": "send", "size": size, "when": when, "other_entity": True})
            for gap in (1, IVL * 3):
                cases.append({"t": "send", "size": size, "when": when, "same_request_again": gap})
    # the same receiver scenarios while another entity of the process has configured its own fault handler table
    cases += [dict(c, other_entity=True) for c in cases if c["t"] == "recv" and c["n"] <= 2 and c["L"] <= 2]
    # the PDUs before the EOF are spread over (virtual) time: 0.4 / 1 / 2.5 check intervals between them
    cases += [dict(c, spread_ms=sp) for c in cases if c["t"] == "recv" and not c.get("other_entity") and (c["n"] + c["L"]) <= 4 for sp in (IVL * 2 // 5, IVL, IVL * 5 // 2)]
    # the checksum type announced in the Metadata PDU differs from the default the receiver has configured for this sender
    cases += [dict(c, mib_cks="crc32c" if c["cks"] == "crc32" else "crc32") for c in cases if c["t"] == "recv" and not c.get("other_entity") and c["n"] <= 2]
    # the Metadata PDU announces an unbounded file (size 0), the size is only known from the EOF
    cases += [dict(c, md_size="unbounded") for c in cases if c["t"] in ("recv", "recv_race") and not c.get("other_entity") and not c.get("mib_cks") and c["n"] <= 2]
    return cases


def run_recv(case):
    n, L, S, arr = case["n"], case["L"], case["S"], case["arr"]
    cfg = {"mode": "unack", "closure": case["closure"], "cks": case["cks"], "size": 4 * n - 1, "seg": 4, "check_limit": L,
           "check_ivl_ms": IVL, "content": n + L, "fs": "mem"}
    obs = {}
    if case.get("mib_cks"):
        cfg["rc_at_dst"] = {"crc_type": case["mib_cks"]}
        obs["recv_cases_metadata_checksum_type_differs_from_mib"] = 1
    with World(cfg) as w:
        D = w.D
        tc = prep.tx_conf(w)
        data = w.data
        # (md_size 'unbounded': the sender did not know the file size when it sent the Metadata PDU and announced 0; the EOF's size counts)
        md = pdugen.raw("MD", tc, {"size": 0 if case.get("md_size") == "unbounded" else len(data), "cks": case["cks"], "closure": case["closure"],
                                   "src_name": w.src_path.as_posix(), "dst_name": w.dst_req_path.as_posix()})
        obs["cases_with_metadata_announcing_an_unbounded_file"] = int(case.get("md_size") == "unbounded")
        eof = pdugen.raw("EOF", tc, {"size": len(data), "cksum": models.checksum(case["cks"], data)})

        def fd(i):
            return pdugen.raw("FD", tc, {"offset": 4 * i, "data": data[4 * i : 4 * i + 4]})

        p = Probe(w, D)
        p.call(md)
        spread = case.get("spread_ms", 0)
        for i in range(n):
            if i not in S:
                vclock.advance(spread)  # (the PDUs before the EOF may be spread over time: expiries are counted from the EOF)
                p.call(fd(i))
        vclock.advance(spread)
        if spread:
            obs["recv_cases_with_pdus_spread_over_time"] = 1
        p.viol.clear()
        outstanding = set(S)
        done = {"state": None}  # None | 'success' | 'fault'

        def judge(got, when, may_succeed, must_succeed=False, must_fault=False):
            tx, fh, fins = got
            fh_hard = [f for f in fh if f[0] != "ignore"]
            obs["ignored_checksum_failure_callbacks"] = obs.get("ignored_checksum_failure_callbacks", 0) + len(fh) - len(fh_hard)
            fin_pdus = [t["d"] for t in tx if t["d"].get("kind") == "FIN"]
            other = [wire.short(t["d"]) for t in tx if t["d"].get("kind") != "FIN"]
            if other:
                p.viol.append({"clause": "unexpected-pdu-emitted", "when": when, "tx": other})
            completed = bool(fins) or bool(fin_pdus) or D.h.state.name == "IDLE"
            if not completed:
                if fh_hard:
                    p.viol.append({"clause": "fault-without-completion", "when": when, "fh": fh_hard})
                if must_succeed:
                    p.viol.append({"clause": "no-success-at-expiry-although-data-complete", "when": when})
                if must_fault:
                    p.viol.append({"clause": "no-check-limit-fault-at-limit-th-expiry", "when": when})
                return
            succ = fins and tuple(fins[0]) == ("NO_ERROR", "DATA_COMPLETE", "FILE_RETAINED")
            if succ:
                done["state"] = "success"
                if not may_succeed:
                    p.viol.append({"clause": "success-while-data-outstanding", "when": when, "outstanding": sorted(outstanding)})
                if must_fault:
                    p.viol.append({"clause": "no-check-limit-fault-at-limit-th-expiry", "when": when, "fins": fins})
                if w.dest_bytes() != data:
                    p.viol.append({"clause": "success-with-different-file", "when": when})
                if fh_hard:
                    p.viol.append({"clause": "fault-callback-with-success", "when": when, "fh": fh_hard})
                if case["closure"] and [(d["cond"], d["delivery"], d["fstatus"]) for d in fin_pdus] != [("NO_ERROR", "DATA_COMPLETE", "FILE_RETAINED")]:
                    p.viol.append({"clause": "finished-pdu-differs", "when": when, "fin_pdus": [wire.short(d) for d in fin_pdus]})
            else:
                done["state"] = "fault"
                if not must_fault:
                    p.viol.append({"clause": "unsuccessful-completion-at-wrong-time", "when": when, "fins": fins, "fh": fh_hard})
                if fh_hard != [("cancel", "CHECK_LIMIT_REACHED")]:
                    p.viol.append({"clause": "check-limit-fault-callback-differs", "when": when, "fh": fh_hard})
                if not fins or fins[0][0] != "CHECK_LIMIT_REACHED" or fins[0][1] != "DATA_INCOMPLETE":
                    p.viol.append({"clause": "result-not-check-limit-incomplete", "when": when, "fins": fins})
                if case["closure"] and [(d["cond"], d["delivery"]) for d in fin_pdus] != [("CHECK_LIMIT_REACHED", "DATA_INCOMPLETE")]:
                    p.viol.append({"clause": "finished-pdu-differs", "when": when, "fin_pdus": [wire.short(d) for d in fin_pdus]})
            if not case["closure"] and fin_pdus:
                p.viol.append({"clause": "finished-pdu-without-closure", "when": when})
            if len(fins) != 1:
                p.viol.append({"clause": "transaction-finished-count", "when": when, "fins": fins})
            if D.h.state.name != "IDLE":
                p.viol.append({"clause": "not-idle-after-completion", "when": when, "step": D.h.step.name})

        got = p.call(eof)
        judge(got, "eof-arrival", may_succeed=False)
        t_reset = vclock.now_ms()
        for e in range(1, L + 1):
            if done["state"]:
                break
            late = [i for i, a in zip(S, arr) if a == e]
            if case["order"] == "desc":
                late.reverse()
            vclock.advance(IVL // 2)
            for i in late:
                outstanding.discard(i)
                got = p.call(fd(i))
                judge(got, f"late-fd-{i}-before-expiry-{e}", may_succeed=not outstanding)
                if done["state"]:
                    break
            if done["state"]:
                break
            vclock.advance(t_reset + IVL - 1 - vclock.now_ms())
            got = p.call()
            judge(got, f"1ms-before-expiry-{e}", may_succeed=not outstanding)
            if done["state"]:
                break
            vclock.advance(1)
            obs["expiries"] = obs.get("expiries", 0) + 1
            got = p.call()
            judge(got, f"expiry-{e}-of-{L}", may_succeed=not outstanding, must_succeed=not outstanding, must_fault=bool(outstanding) and e == L)
            t_reset = vclock.now_ms()
        if not done["state"]:
            p.viol.append({"clause": "transaction-still-open-after-limit", "step": D.h.step.name})
        # PDUs arriving after the end must not reopen anything / change the file
        before = w.dest_bytes()
        for i, a in zip(S, arr):
            if a == L + 1 and done["state"]:
                try:
                    p.ep.sm(wire.parse(fd(i)))
                except PROTO_EXC:
                    pass
                p.ep.outbox.clear()
        if done["state"] == "success" and w.dest_bytes() != before:
            p.viol.append({"clause": "file-changed-after-success"})
        obs["recv_" + str(done["state"])] = 1
        obs["recv_cases"] = 1
        return p.viol, obs, trace_summary(w, None, 40)


def run_recv_race(case):
    """Both orders of looking at the timer and at the PDU inside one call are accepted: success in the expiry call, success at the
    next expiry (e < L), or the check-limit fault in this call (e == L).  Anything else is a violation."""
    n, L, i, e_race = case["n"], case["L"], case["i"], case["e"]
    cfg = {"mode": "unack", "closure": case["closure"], "cks": case["cks"], "size": 4 * n - 1, "seg": 4, "check_limit": L,
           "check_ivl_ms": IVL, "content": n + L, "fs": "mem"}
    obs = {"race_cases": 1}
    with World(cfg) as w:
        D = w.D
        tc = prep.tx_conf(w)
        data = w.data
        # (md_size 'unbounded': the sender did not know the file size when it sent the Metadata PDU and announced 0; the EOF's size counts)
        md = pdugen.raw("MD", tc, {"size": 0 if case.get("md_size") == "unbounded" else len(data), "cks": case["cks"], "closure": case["closure"],
                                   "src_name": w.src_path.as_posix(), "dst_name": w.dst_req_path.as_posix()})
        obs["cases_with_metadata_announcing_an_unbounded_file"] = int(case.get("md_size") == "unbounded")
        eof = pdugen.raw("EOF", tc, {"size": len(data), "cksum": models.checksum(case["cks"], data)})
        fdi = pdugen.raw("FD", tc, {"offset": 4 * i, "data": data[4 * i : 4 * i + 4]})
        p = Probe(w, D)
        p.call(md)
        for j in range(n):
            if j != i:
                p.call(pdugen.raw("FD", tc, {"offset": 4 * j, "data": data[4 * j : 4 * j + 4]}))
        p.call(eof)
        p.viol.clear()
        p.since()
        t_reset = vclock.now_ms()

        def outcome(got):
            tx, fh, fins = got
            hard = [f for f in fh if f[0] != "ignore"]
            if fins and tuple(fins[0]) == ("NO_ERROR", "DATA_COMPLETE", "FILE_RETAINED"):
                return "success" if (w.dest_bytes() == data and not hard) else "bad-success"
            if fins and fins[0][0] == "CHECK_LIMIT_REACHED" and fins[0][1] == "DATA_INCOMPLETE" and hard == [("cancel", "CHECK_LIMIT_REACHED")]:
                return "fault"
            if not fins and not hard and not tx:
                return "open"
            return "other"

        for e in range(1, e_race):
            vclock.advance(t_reset + IVL - vclock.now_ms())
            got = p.call()
            if outcome(got) != "open":
                p.viol.append({"clause": "completion-before-the-late-data-arrived", "expiry": e, "got": outcome(got)})
                return p.viol, obs, trace_summary(w, None, 30)
            t_reset = vclock.now_ms()
        vclock.advance(t_reset + IVL - vclock.now_ms())
        got = p.call(fdi)
        o = outcome(got)
        obs["race_outcome_" + o] = 1
        if o == "success":
            pass
        elif o == "fault" and e_race == L:
            pass
        elif o == "open" and e_race < L:
            t_reset = vclock.now_ms()
            vclock.advance(IVL)
            got = p.call()
            if outcome(got) != "success":
                p.viol.append({"clause": "no-success-at-the-expiry-after-the-data-arrived", "expiry": e_race + 1, "got": outcome(got), "fins": got[2], "fh": got[1]})
            obs["race_success_at_next_expiry"] = 1
        else:
            p.viol.append({"clause": "race-of-check-timer-and-late-data-ends-in-neither-success-nor-limit-fault", "expiry": e_race, "limit": L, "got": o,
                           "fins": got[2], "fh": got[1]})
        if D.h.state.name != "IDLE" and not p.viol:
            p.viol.append({"clause": "not-idle-after-completion", "step": D.h.step.name})
        return p.viol, obs, trace_summary(w, None, 30)


def run_send(case):
    cfg = {"mode": "unack", "closure": True, "size": case["size"], "seg": 4, "check_ivl_ms": IVL, "fs": "mem"}
    obs = {"send_cases": 1}
    with World(cfg) as w:
        if case.get("prev_ivl_ms"):
            w.src_ctp.ms = case["prev_ivl_ms"]
            if not prep.src_to(w, "WAITING_FOR_FINISHED"):
                return [{"clause": "harness-could-not-prepare-step", "step": w.S.h.step.name}], obs, None
            prep.feed(w.S, pdugen.raw("FIN", prep.tx_conf(w), {}))
            w.S.outbox.clear()
            if w.S.h.state.name != "IDLE":
                return [{"clause": "harness-could-not-complete-first-transfer", "step": w.S.h.step.name}], obs, None
            w.src_ctp.ms = IVL
            w.cfg["seq_start"] = w.cfg["seq_start"] + 1
            vclock.advance(IVL * 10)
            obs["send_cases_after_transfer_with_other_check_interval"] = 1
        if case.get("same_request_again"):
            # the user's put request leaves mode and closure to the MIB; it was used once while the MIB entry did not ask for closure, the
            # user then switched closure on in the MIB and hands the very same request object in again
            w.cfg["req_mode"], w.cfg["req_closure"] = None, None
            w.rc_dst_at_src.closure_requested = False
            if not prep.src_to(w, "IDLE_AFTER_TRANSACTION"):
                return [{"clause": "harness-could-not-complete-first-transfer", "step": w.S.h.step.name}], obs, None
            w.rc_dst_at_src.closure_requested = True
            w.reuse_last_request = True
            w.cfg["seq_start"] = w.cfg["seq_start"] + 1
            vclock.advance(case["same_request_again"])
            obs["send_cases_with_the_same_request_object_after_a_mib_change"] = 1
        if case.get("pace"):
            w.put()
            for _ in range(case["size"] + 10):
                try:
                    w.S.sm()
                except Exception as e:  # noqa: BLE001
                    return [{"clause": "call-raised-while-sending", "etype": type(e).__name__, "msg": str(e)[:150]}], obs, None
                w.S.outbox.clear()
                if w.S.h.step.name != "SENDING_FILE_DATA" and any(e["d"].get("kind") == "EOF" for e in w.log.of("tx", "S")):
                    break
                vclock.advance(case["pace"])
            eofs = [wire.short(e["d"]) for e in w.log.of("tx", "S") if e["d"].get("kind") == "EOF"]
            fhs = [(e["which"], e["cond"]) for e in w.log.of("fh", "S")]
            if w.S.h.step.name != "WAITING_FOR_FINISHED" or len(eofs) != 1 or fhs:
                return [{"clause": "sender-not-waiting-for-finished-after-paced-sending", "step": w.S.h.step.name, "eofs": eofs, "fh": fhs,
                         "trace": trace_summary(w, None, 30)}], obs, None
            obs["send_cases_with_paced_link"] = 1
        elif not prep.src_to(w, "WAITING_FOR_FINISHED"):
            return [{"clause": "harness-could-not-prepare-step", "step": w.S.h.step.name}], obs, None
        p = Probe(w, w.S)
        tc = prep.tx_conf(w)
        fin = pdugen.raw("FIN", tc, {})
        t0 = vclock.now_ms()
        if case["when"] == "before":
            vclock.advance(IVL - 1)
            got = p.call(fin)
            p.check(got, "finished-before-check-timer", tx_raw=[], fh=[], fins=[("NO_ERROR", "DATA_COMPLETE", "FILE_RETAINED")])
            p.quiet_for(IVL, 3, "after-finished", idle_step="IDLE")
        elif case["when"] == "at_deadline":
            vclock.advance(IVL)
            got = p.call(fin)
            p.check(got, "finished-together-with-expiry", tx_raw=[], fh=[], fins=[("NO_ERROR", "DATA_COMPLETE", "FILE_RETAINED")])
            p.quiet_for(IVL, 3, "after-finished", idle_step="IDLE")
        else:
            got = p.expiry(t0, IVL, "sender-check-timer")
            want = [{"kind": "EOF", "cond": "CHECK_LIMIT_REACHED", "size": case["size"], "cksum": models.checksum("crc32", w.data).hex()}]
            p.check(got, "sender-check-timer-expiry", tx_desc=want, fh=[("cancel", "CHECK_LIMIT_REACHED")], fins=got[2])
            obs["sender_check_limit_faults"] = 1
            p.quiet_for(IVL, 3, "after-cancel", idle_step="IDLE")
        return p.viol, obs, trace_summary(w, None, 30)


def run_case(case):
    if case.get("other_entity"):
        from ..world import other_entity_configures_fault_handlers

        other_entity_configures_fault_handlers({"FILE_CHECKSUM_FAILURE": "cancel", "CHECK_LIMIT_REACHED": "abandon"})
    viol, obs, sample = {"recv": run_recv, "recv_race": run_recv_race, "send": run_send}[case["t"]](case)
    if case.get("other_entity"):
        obs["cases_next_to_other_entity_with_own_fault_table"] = 1
    for v in viol:
        v["case"] = case
    return {"viol": viol, "sig": case, "obs": obs, "sample": sample}


def exhaustive(tier):
    return True


REQUIRED = {"recv_cases": 500, "recv_success": 50, "recv_fault": 50, "send_cases": 6, "race_cases": 100, "cases_next_to_other_entity_with_own_fault_table": 50, "sender_check_limit_faults": 2, "send_cases_with_paced_link": 6, "recv_cases_with_pdus_spread_over_time": 50, "send_cases_after_transfer_with_other_check_interval": 4, "recv_cases_metadata_checksum_type_differs_from_mib": 50, "expiries": 500,
            "cases_with_metadata_announcing_an_unbounded_file": 100, "send_cases_with_the_same_request_object_after_a_mib_change": 6}
