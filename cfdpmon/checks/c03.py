"""C03 - acknowledged mode recovers from at most K link faults (loss, duplication, delay/reordering,
timer-before-arrival races) when every expiration limit exceeds K."""
from __future__ import annotations

import functools
import itertools
import random

from ..oracles import C01Monitor, success_end_state, trace_summary
from .. import vclock
from ..world import EnumPlan, InternalError, RandomPlan, Runner, World

PROP = "C03"
LEVEL = "fault_enumeration"
TECHNIQUE = "runtime monitoring with exhaustive link-fault enumeration (K<=2, every emitted PDU incl. retransmissions x drop/dup/delay/hold/late) and seeded random fault schedules (K<=6) on the real handler pair; bounded-progress oracle on virtual time"
RULE = (
    "a case = (configuration, fault schedule); schedules map the global emission index of a PDU (both directions, "
    "retransmissions and shell ACKs included) to a fault kind in {drop, dup, delay1, delay2, delay4, quiet (held until the "
    "link is quiet), late (held until after the next timer expiry)}; exhaustive for K<=2 over all emission positions, "
    "random beyond; expiration limits = K+1 or K+3.  Non-trivial = at least one fault was really applied to a PDU; "
    "distinct = distinct (configuration, applied fault list)"
)
ASSUMPTIONS = [
    "the surrounding entity (shell) acknowledges EOF / Finished PDUs of transactions the addressed handler already closed, as the library documents",
    "liveness is restated as bounded progress: quiescence within 6*limit+20 timer expiries after the last fault",
    "a timer expiring before a delayed PDU arrives ('late': the expiry is serviced by a call of its own; 'race': the PDU is handed over in the very call that detects the expiry) is counted as one of the K faults",
]
KINDS = ["drop", "dup", "delay1", "delay2", "delay4", "quiet", "late", "race"]
SEG = 4
BINARY_MSGS = [[["raw", "80818283848586"], ["raw", "fffefdfcfb"]], [["raw", "c3283132333435"], ["orig", 5, 2, 7, 2], ["raw", "e28228e28228"]],
               [["raw", "0102030405"]]]
SIZES_ALL = [0, 1, 4, 8, 9]


def base_cfg(size, imm, closure, limit, content=0):
    return {
        "mode": "ack", "closure": closure, "seg": SEG, "maxpkt": 64, "size": size, "imm_nak": imm,
        "ack_limit": limit, "nak_limit": limit, "check_limit": limit, "content": content,
    }


def execute(cfg, plan, max_expiries, pacing=None, prior=None):
    """Returns (world, runner, outcome, internal_error) -- caller closes the world."""
    w = World(cfg)
    mon = C01Monitor(w)
    w.judged_since = 0
    if prior is not None:
        # the same two handlers already carried a transfer (without faults), possibly of the other kind, and some time has passed since
        saved = {k: w.cfg[k] for k in ("mode", "closure")}
        w.cfg.update(mode=prior["mode"], closure=prior["closure"])
        try:
            w.put()
            Runner(w, max_expiries=30, max_rounds=3000).run()
        except InternalError as e:
            return w, Runner(w), "exception", e, mon
        w.cfg.update(saved)
        vclock.use(w.clock)
        vclock.advance(prior["gap_ms"])
        w.judged_since = w.log.seq
    r = Runner(w, plan=plan, max_expiries=max_expiries, max_rounds=3000, pacing=pacing)
    err = None
    try:
        w.put()
        outcome = r.run()
    except InternalError as e:
        outcome = "exception"
        err = e
    return w, r, outcome, err, mon


@functools.lru_cache(maxsize=None)
def emission_count(cfg_key, faults_key, pacing_key=()):
    cfg = dict(cfg_key)
    plan = EnumPlan(dict(faults_key))
    w, r, outcome, err, _ = execute(cfg, plan, 30, dict(pacing_key) or None)
    n = r.emit_idx
    w.close()
    return n


def key_of(cfg):
    return tuple(sorted(cfg.items()))


def gen_cases(tier, seed):
    cases = []
    if tier == "quick":
        k1_sizes, k2_sizes, k2_kinds, nrand = SIZES_ALL, [1, 8], ["drop", "dup", "delay2", "late", "race"], 400
    else:
        k1_sizes, k2_sizes, k2_kinds, nrand = SIZES_ALL, SIZES_ALL, KINDS, 20000
    for size in k1_sizes:
        for imm in (True, False):
            for closure in (False, True):
                for K, extra in ((1, 0), (1, 2)):
                    cfg = base_cfg(size, imm, closure, K + 1 + extra)
                    n = emission_count(key_of(cfg), ())
                    for pos in range(n + 1):
                        for kind in KINDS:
                            cases.append({"cfg": cfg, "faults": {str(pos): kind}, "K": 1})
    for size in k2_sizes:
        for imm in (True, False):
            closures = (False, True) if tier == "thorough" else (bool(size % 2),)
            for closure in closures:
                cfg = base_cfg(size, imm, closure, 3)
                n0 = emission_count(key_of(cfg), ())
                for p1 in range(n0):
                    for k1 in k2_kinds:
                        n1 = emission_count(key_of(cfg), ((p1, k1),))
                        for p2 in range(p1 + 1, n1 + 1):
                            for k2 in k2_kinds:
                                cases.append({"cfg": cfg, "faults": {str(p1): k1, str(p2): k2}, "K": 2})
    if tier == "thorough":
        # K = 3 exhaustively on the smallest files (drop / duplicate / timer-before-delivery), limit 4
        k3 = ["drop", "dup", "late", "race"]
        for size in (1, 5):
            for imm in (True, False):
                cfg = base_cfg(size, imm, bool(size % 2), 4)
                n0 = emission_count(key_of(cfg), ())
                for p1 in range(n0):
                    for k1 in k3:
                        n1 = emission_count(key_of(cfg), ((p1, k1),))
                        for p2 in range(p1 + 1, n1):
                            for k2 in k3:
                                n2 = emission_count(key_of(cfg), ((p1, k1), (p2, k2)))
                                for p3 in range(p2 + 1, n2 + 1):
                                    for k3_ in k3:
                                        cases.append({"cfg": cfg, "faults": {str(p1): k1, str(p2): k2, str(p3): k3_}, "K": 3})
    # small max_packet_len: the deferred NAK sequence needs several NAK PDUs (30: one request per PDU, 40: two)
    for maxpkt in (30, 40):
        for size in (8, 13):
            for imm in (True, False):
                cfg = base_cfg(size, imm, bool(maxpkt == 30), 2)
                cfg["maxpkt"] = maxpkt
                n = emission_count(key_of(cfg), ())
                for pos in range(n + 1):
                    for kind in KINDS:
                        cases.append({"cfg": cfg, "faults": {str(pos): kind}, "K": 1})
                if size == 13:
                    cfg = dict(cfg, ack_limit=3, nak_limit=3, check_limit=3)
                    kinds2 = ["drop"] if tier == "quick" else k2_kinds
                    n0 = emission_count(key_of(cfg), ())
                    for p1 in range(n0):
                        for k1 in kinds2:
                            n1 = emission_count(key_of(cfg), ((p1, k1),))
                            for p2 in range(p1 + 1, n1 + 1):
                                for k2 in kinds2:
                                    cases.append({"cfg": cfg, "faults": {str(p1): k1, str(p2): k2}, "K": 2})
    # other pacings of the two entities (the sender emits several PDUs before it looks at what came back, the receiver works in bursts):
    # every single fault, and every pair of losses on the 13 byte file
    for pacing in ({"src_calls": 3}, {"src_calls": 5, "dst_calls": 2}, {"dst_calls": 3}):
        pk = tuple(sorted(pacing.items()))
        for size in (5, 13):
            for imm in (True, False):
                cfg = base_cfg(size, imm, bool(size % 2) != imm, 3)
                n = emission_count(key_of(cfg), (), pk)
                for pos in range(n + 1):
                    for kind in KINDS:
                        cases.append({"cfg": cfg, "faults": {str(pos): kind}, "K": 1, "pacing": pacing})
                if size == 13 and (tier == "thorough" or "src_calls" in pacing):
                    for p1 in range(n):
                        n1 = emission_count(key_of(cfg), ((p1, "drop"),), pk)
                        for p2 in range(p1 + 1, n1 + 1):
                            cases.append({"cfg": cfg, "faults": {str(p1): "drop", str(p2): "drop"}, "K": 2, "pacing": pacing})
    # what the Metadata PDU carries besides the names (binary messages to user, a reserved one, other options) must not matter for the
    # recovery, nor must an earlier transfer on the same handlers (of the other kind, some time ago): every single fault, both NAK modes
    for size, imm in itertools.product((5, 9), (True, False)):
        cfg = base_cfg(size, imm, bool(size % 2) == imm, 3)
        n = emission_count(key_of(cfg), ())
        variants = [({"msgs": m}, None) for m in BINARY_MSGS]
        variants += [({"opts": {"fs_requests": 1, "overrides": 2, "flow_label": "0a0b"}}, None)]
        variants += [({}, {"mode": pm, "closure": pc, "gap_ms": gap}) for (pm, pc), gap in itertools.product((("unack", True), ("unack", False), ("ack", False)), (0, 5000, 70000))]
        for extra, prior in variants:
            for pos in range(n + 1):
                for kind in (("drop", "late", "dup") if tier == "quick" else KINDS):
                    cases.append({"cfg": dict(cfg, **extra), "faults": {str(pos): kind}, "K": 1})
                    if prior:
                        cases[-1]["prior"] = prior
    rng = random.Random(77 + seed)
    for i in range(nrand):
        K = rng.choice([2, 3, 4, 5, 6])
        seg = rng.choice([1, 3, 4, 8])
        size = rng.choice([0, 1, seg, 3 * seg, 7 * seg + 1, 20 * seg, 40 * seg - 1])
        cfg = base_cfg(size, rng.random() < 0.5, rng.random() < 0.5, K + rng.choice([1, 2, 3]), content=rng.randrange(5))
        cfg["seg"] = seg
        cfg["crc"] = rng.random() < 0.3
        cfg["cks"] = rng.choice(["crc32", "crc32c", "modular", "null"])
        if seg <= 8 and rng.random() < 0.4:
            cfg["maxpkt"] = rng.choice([32, 36, 40, 48]) if not cfg["crc"] else rng.choice([34, 42, 50])
        cases.append({"cfg": cfg, "random": {"seed": seed * 1_000_003 + i, "K": K,
                                             "p": {"drop": 0.08, "dup": 0.04, "delay": 0.05, "quiet": 0.02, "late": 0.02, "race": 0.02}}, "K": K})
        cfg["scribble_pdus"], cfg["scribble_user"] = i % 5 == 0, i % 7 == 0
        if i % 4 == 1:
            cfg["msgs"] = rng.choice(BINARY_MSGS)
        if i % 4 == 2:
            cases[-1]["prior"] = {"mode": rng.choice(["ack", "unack"]), "closure": rng.random() < 0.6, "gap_ms": rng.choice([0, 900, 5000, 70000])}
        if i % 3 == 0:
            cases[-1]["pacing"] = rng.choice([{"src_calls": 3}, {"src_calls": 6}, {"dst_calls": 3}, {"src_calls": 2, "dst_calls": 2}, {"dst_idle": 2}])
    return cases


def run_case(case):
    cfg = case["cfg"]
    limit = cfg["ack_limit"]
    if "faults" in case:
        plan = EnumPlan(case["faults"])
    else:
        rp = case["random"]
        plan = RandomPlan(rp["seed"], rp["p"], max_faults=rp["K"])
    w, r, outcome, err, mon = execute(cfg, plan, 6 * limit + 20, case.get("pacing"), case.get("prior"))
    try:
        viol = []
        if err is not None:
            viol.append({"clause": "api-call-raised", "side": err.side, "etype": type(err.exc).__name__, "msg": str(err.exc)[:200]})
        else:
            viol += success_end_state(w, r, outcome, allow_faults_cb=True, exactly_one=False, since=w.judged_since)
        viol += mon.viol
        applied = [(a[1], a[2], a[3]) for a in plan.applied]
        for v in viol:
            v["faults_applied"] = applied
            v["dropped_kinds"] = sorted({a[2].split("(")[0].split("[")[0] for a in plan.applied if a[1] == "drop"})
            v["trace"] = trace_summary(w, r, 70)
            v["src_step"] = w.S.h.step.name
            v["dst_step"] = w.D.h.step.name
        obs = {"faults_applied": len(applied), "expiries": r.expiries, "shell_acks": r.shell_acks,
               "proto_exc_caught": len(r.proto_exc), "success_reports_checked": mon.success_reports,
               "fault_callbacks": len(w.log.of("fh")), f"K{case['K']}_cases": 1, "cases_with_other_pacing": int(bool(case.get("pacing"))),
               "cases_on_handlers_with_an_earlier_transfer": int(bool(case.get("prior"))), "cases_with_binary_messages_to_user": int(bool(cfg.get("msgs")))}
        for a in plan.applied:
            kind = a[2].split("(")[0].split("[")[0]
            obs[f"fault_{a[1].rstrip('0123456789')}_{kind}"] = obs.get(f"fault_{a[1].rstrip('0123456789')}_{kind}", 0) + 1
        keys = {"step_pairs": [f"{a}|{b}" for a, b in r.steps_seen]}
        sig = None
        if applied:
            sig = [sorted((k, v) for k, v in cfg.items() if k != "content"), applied]
        sample = {"outcome": outcome, "faults": applied, "trace": trace_summary(w, r, 40)} if len(applied) >= 2 else None
        return {"viol": viol, "sig": sig, "obs": obs, "keys": keys, "sample": sample}
    finally:
        w.close()


def exhaustive(tier):
    return False


REQUIRED = {"faults_applied": 100, "cases_on_handlers_with_an_earlier_transfer": 100, "cases_with_binary_messages_to_user": 100, "fault_drop_EOF": 1, "fault_drop_NAK": 1, "fault_drop_FIN": 1, "fault_drop_ACK_EOF": 1,
            "fault_drop_ACK_FIN": 1, "fault_drop_MD": 1, "fault_drop_FD": 1}
