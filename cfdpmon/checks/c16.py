"""C16 - all file access goes through the user-supplied virtual filestore."""
from __future__ import annotations

import json
import os
import random
import subprocess
import sys
import tempfile
from pathlib import Path

from .. import VERIF_ROOT, audit, wire
from ..msgs import request_extras
from ..oracles import C01Monitor, trace_summary
from ..world import InternalError, RandomPlan, Runner, World

PROP = "C16"
LEVEL = "exploration"
TECHNIQUE = "runtime monitoring of the real handler pair equipped with a purely in-memory VirtualFilestore whose path names exist on the host with different (decoy) content: (1) in-process monitor of Python-level host access (sys.addaudithook + wrappers on os.stat/lstat/access) active while a handler API call is on the stack and outside the filestore object; (2) host sandbox snapshot before/after; (3) decoy bytes must never appear in the transfer; (4) differential: byte-exact PDU/indication/fault trace and resulting file equal to the same transfer on the native filestore; thorough adds (5) the same workload in a subprocess under strace -f -e trace=%file with a search for the sandbox path between begin/end markers"
RULE = (
    "a case = (configuration of the C02 grid sample: mode x closure x size x segment length x checksum type x destination shape x PDU CRC x NAK mode, fault "
    "schedule of the C03 kind (none / random drop, dup, delay, late incl. retransmissions), optional cancel request at either side (cancel-time checksum), "
    "metadata-only requests); each case is executed twice (native filestore, in-memory filestore over decoy host files).  Non-trivial = the in-memory run "
    "performed at least 3 filestore operations and its trace was compared; distinct = distinct cases"
)
ASSUMPTIONS = [
    "the in-memory filestore (cfdpmon.rec.MemFilestore) implements the documented VirtualFilestore interface; its checksum uses the independent reference models",
    "host accesses made by the harness itself (sandbox creation, oracle reads) are bracketed as allowed; everything inside a handler API call outside the filestore object is attributed to the handler",
    "traces of the two runs are compared after replacing the two sandbox names (equal length, created by mkdtemp) by a placeholder",
]


def gen_cases(tier, seed):
    rng = random.Random(1600 + seed)
    n = 2500 if tier == "quick" else 60000
    cases = []
    for i in range(n):
        seg = rng.choice([1, 3, 4, 8, 64])
        size = rng.choice([0, 1, seg, 3 * seg + 1, 7 * seg]) if seg < 64 else rng.choice([0, 5, 64, 200])
        cfg = {"mode": rng.choice(["ack", "unack"]), "closure": rng.random() < 0.5, "imm_nak": rng.random() < 0.5, "seg": seg, "size": size,
               "cks": rng.choice(["crc32", "crc32c", "modular", "null"]), "crc": rng.random() < 0.3, "dest": rng.choice(["file", "dir", "existing", "dir_existing"]),
               "content": rng.randrange(4), "ack_limit": 3, "nak_limit": 3, "check_limit": 2, "disp": rng.random() < 0.4,
               "metadata_only": rng.random() < 0.04, "maxpkt": 128}
        cfg.update(request_extras(rng, 0.15))  # options and (binary) messages to user in the put request
        if cfg["dest"] in ("file", "existing") and rng.random() < 0.12:
            cfg["dst_name"] = rng.choice(["../dstdir/out.bin", "./out.bin", "../srcdir/../dstdir/up.bin"])  # destination names with '.' / '..' components
        faults = rng.choice([None, None, 0.1, 0.25, 0.4])
        cancel = None if rng.random() < 0.75 else [rng.choice("SD"), rng.randrange(1, 12)]
        reset_at = None if rng.random() < 0.9 else [rng.choice("SD"), rng.randrange(1, 12)]  # the user calls reset() in the middle of the transfer
        cases.append({"t": "pair", "cfg": cfg, "faults": faults, "cancel": cancel, "seed": seed * 1_000_003 + i, "reset_at": reset_at, "pacing": rng.choice([None, None, {"src_calls": 3}, {"src_calls": 6}, {"dst_calls": 3}, {"src_calls": 2, "dst_calls": 2}, {"dst_idle": 2}, {"src_idle": 2, "dst_calls": 2}])})
    # two users of one process, each with an in-memory filestore of its own, whose (virtual) path names, sizes and checksum types are the
    # same while the contents differ: what one handler reads must come from its own user's filestore
    for j in range(150 if tier == "quick" else 3000):
        seg = rng.choice([3, 4, 8])
        cfg = {"mode": rng.choice(["ack", "unack"]), "closure": rng.random() < 0.5, "seg": seg, "size": rng.choice([1, seg, 3 * seg + 1]),
               "cks": rng.choice(["crc32", "crc32c", "modular"]), "crc": rng.random() < 0.3, "dest": rng.choice(["file", "dir"]), "maxpkt": 128}
        cases.append({"t": "two_users", "cfg": cfg, "other_at": rng.choice(["WAITING_FOR_EOF_ACK", "SENDING_FILE_DATA", "IDLE_AFTER_TRANSACTION"]),
                      "contents": rng.sample([0, 1, 2, 3], 2)})
    if tier == "thorough":
        for j in range(16):
            cases.append({"t": "strace", "seed": seed * 1_000_003 + 900_000 + j, "n": 150})
    else:
        cases.append({"t": "strace", "seed": seed * 1_000_003 + 900_000, "n": 40})
    return cases


def one_run(case, fs):
    cfg = dict(case["cfg"], fs=fs)
    w = World(cfg)
    mon = C01Monitor(w)
    plan = None
    if case["faults"]:
        sc = case["faults"]
        plan = RandomPlan(case["seed"], {"drop": 0.3 * sc, "dup": 0.2 * sc, "delay": 0.3 * sc, "late": 0.05 * sc})
    actions = {}
    if case["cancel"]:
        actions[case["cancel"][1]] = [("cancel", case["cancel"][0])]
    if case.get("reset_at"):
        actions.setdefault(case["reset_at"][1], []).append(("reset", case["reset_at"][0]))
    r = Runner(w, plan=plan, max_expiries=30 if not case.get("reset_at") else 6, max_rounds=2500, actions=actions, pacing=case.get("pacing"))
    host_before = w.host_tree()
    if fs != "native":
        audit.arm([w.sandbox])
    internal = None
    try:
        w.put()
        outcome = r.run()
    except InternalError as e:
        outcome = "internal-error:" + type(e.exc).__name__
    except Exception as e:  # noqa: BLE001  put_request raising
        outcome = "put-raised:" + type(e).__name__
    recs = audit.disarm() if fs != "native" else []
    return w, r, mon, outcome, host_before, recs


def normalized_trace(w: World):
    name = (w.sandbox.name if w.sandbox is not None else "\0no-sandbox\0").encode()
    sbname = name.decode()
    out = []
    for e in w.log.events:
        k = e["kind"]
        if k == "tx" or k == "tx_shell":
            raw = e["raw"]
            if raw is not None and name in raw:
                if raw[0] & 0x02:
                    raw = raw[:-2]  # the PDU CRC covers the sandbox name: compared without it
                raw = raw.replace(name, b"SANDBOX")
            out.append((e["side"], k, raw))
        elif k.startswith("ind_") or k == "fh":
            items = []
            for a, b in sorted(e.items()):
                if a in ("seq", "kind", "side"):
                    continue
                if isinstance(b, str):
                    b = b.replace(sbname, "SANDBOX")
                items.append((a, repr(b)))
            out.append((e["side"], k, tuple(items)))
        elif k == "exc":
            out.append((e["side"], "exc", e["api"], e["etype"]))
        elif k == "action":
            out.append((e["side"], "action", e["what"], e["res"]))
    return out


def run_pair(case):
    viol, obs = [], {}
    wn, rn, monn, outn, _, _ = one_run(case, "native")
    try:
        tn = normalized_trace(wn)
        dest_n = wn.dest_bytes()
    finally:
        wn.close()
    wm, rm, monm, outm, host_before, recs = one_run(case, "mem_decoy")
    try:
        tm = normalized_trace(wm)
        dest_m = wm.dest_bytes()
        host_after = wm.host_tree()
        fs_ops = len([e for e in wm.log.events if e["kind"] == "fs"])
        # (1) host access behind the filestore's back
        for rec in recs[:3]:
            viol.append({"clause": "host-file-system-accessed-behind-the-filestore", **rec})
        # (2) host sandbox untouched
        if host_after != host_before:
            changed = sorted(p for p in set(host_before) | set(host_after) if host_before.get(p) != host_after.get(p))
            viol.append({"clause": "host-file-system-changed", "paths": changed[:5]})
        # (3) decoy content must not travel
        decoy = b"DECOY-"
        for e in wm.log.events:
            if e["kind"] == "tx" and e["raw"] and e["d"].get("kind") == "FD" and decoy in e["raw"]:
                viol.append({"clause": "host-file-content-in-transfer", "pdu": wire.short(e["d"])})
                break
        if dest_m is not None and decoy in dest_m:
            viol.append({"clause": "host-file-content-in-destination-file"})
        # (4) differential
        if outn != outm:
            viol.append({"clause": "outcome-differs-from-native-filestore", "native": outn, "memory": outm})
        elif tn != tm:
            j = next((i for i, (a, b) in enumerate(zip(tn, tm)) if a != b), min(len(tn), len(tm)))
            viol.append({"clause": "trace-differs-from-native-filestore", "first_difference_at": j, "native": _brief(tn[j : j + 2]), "memory": _brief(tm[j : j + 2]),
                         "lengths": (len(tn), len(tm))})
        elif dest_n != dest_m:
            viol.append({"clause": "destination-file-differs-from-native-filestore", "native_len": None if dest_n is None else len(dest_n),
                         "memory_len": None if dest_m is None else len(dest_m)})
        else:
            obs["traces_equal_to_native"] = 1
        viol += monm.viol
        obs["filestore_operations_in_memory_run"] = fs_ops
        obs["unrelated_host_accesses_during_api_calls"] = audit.other_accesses
        for op in {e["op"] for e in wm.log.events if e["kind"] == "fs"}:
            obs["op_" + op] = 1
        if any(e["kind"] == "action" and e.get("what") == "reset" for e in wm.log.events):
            obs["runs_with_reset_in_the_middle"] = 1
        if case["cancel"] and any(e["kind"] == "action" and e["res"] is True for e in wm.log.events):
            obs["cancelled_runs"] = 1
        if any(e["kind"] == "tx" and e["side"] == "S" and e["d"].get("kind") == "EOF" and e["d"].get("cond") == "CANCEL_REQUEST_RECEIVED" for e in wm.log.events):
            obs["cancel_time_checksums"] = 1
        if rm.plan is not None and getattr(rm.plan, "applied", None):
            obs["faulty_runs"] = 1
        if any(e["kind"] == "rx" and e["side"] == "S" and e["d"].get("kind") == "NAK" for e in wm.log.events):
            obs["runs_with_retransmission"] = 1
        obs["outcome_" + outm.split(":")[0]] = 1
        for v in viol:
            v["cfg"] = {k: case["cfg"][k] for k in ("mode", "closure", "size", "seg", "cks", "dest", "metadata_only")}
            v["cancel"] = case["cancel"]
            v["trace_memory_run"] = trace_summary(wm, rm, 40)
        sig = case if fs_ops >= 3 else None
        sample = None
        if fs_ops >= 6 and case["faults"]:
            sample = {"cfg": case["cfg"], "filestore_ops": [f"{e['side']}:{e['op']}" for e in wm.log.events if e["kind"] == "fs"][:14]}
        return {"viol": viol, "obs": obs, "sig": sig, "sample": sample}
    finally:
        wm.close()


def _brief(items):
    out = []
    for x in items:
        if x[1] in ("tx", "tx_shell") and x[2] is not None:
            out.append(f"{x[0]}>{wire.short(wire.describe(x[2]))}" if b"SANDBOX" not in x[2] else f"{x[0]}>{x[1]}(len {len(x[2])})")
        else:
            out.append(str(x)[:160])
    return out


# ---- strace ground truth ---------------------------------------------------------------------------

STRACE_CHILD = r"""
import json, os, random, sys
sys.path.insert(0, %(verif)r)
from cfdpmon.checks import c16
from cfdpmon.world import World, Runner, RandomPlan, InternalError
seed, n = int(sys.argv[1]), int(sys.argv[2])
cases = [c for c in c16.gen_cases("quick", seed) if c["t"] == "pair"][:n]
sandboxes = []
for i, case in enumerate(cases):
    w = World(dict(case["cfg"], fs="mem_decoy"))
    sandboxes.append(str(w.sandbox))
    plan = None
    if case["faults"]:
        sc = case["faults"]
        plan = RandomPlan(case["seed"], {"drop": 0.3 * sc, "dup": 0.2 * sc, "delay": 0.3 * sc, "late": 0.05 * sc})
    actions = {case["cancel"][1]: [("cancel", case["cancel"][0])]} if case["cancel"] else {}
    r = Runner(w, plan=plan, max_expiries=30, max_rounds=2500, actions=actions)
    try:
        os.stat("/CFDPMON-MARK-BEGIN-%%d" %% i)
    except OSError:
        pass
    try:
        w.put()
        r.run()
    except Exception:
        pass
    try:
        os.stat("/CFDPMON-MARK-END-%%d" %% i)
    except OSError:
        pass
    w.close()
print(json.dumps(sandboxes))
"""


def run_strace(case):
    viol, obs = [], {}
    d = Path(tempfile.mkdtemp(prefix="cfdpmon-strace-", dir="/dev/shm" if os.path.isdir("/dev/shm") else None))
    try:
        child = d / "child.py"
        child.write_text(STRACE_CHILD % {"verif": str(VERIF_ROOT)})
        log = d / "trace.log"
        env = dict(os.environ, PYTHONDONTWRITEBYTECODE="1", PYTHONHASHSEED="0")
        try:
            p = subprocess.run(["strace", "-f", "-e", "trace=%file", "-o", str(log), sys.executable, str(child), str(case["seed"]), str(case["n"])],
                               env=env, capture_output=True, text=True, timeout=1500)
        except (FileNotFoundError, subprocess.TimeoutExpired) as e:
            return {"viol": [], "obs": {"strace_unavailable": 1}, "sig": None, "sample": {"strace": str(e)[:200]}}
        if p.returncode != 0 or not log.exists():
            return {"viol": [], "obs": {"strace_unavailable": 1}, "sig": None, "sample": {"strace_rc": p.returncode, "stderr": p.stderr[-300:]}}
        sandboxes = json.loads(p.stdout.strip().splitlines()[-1])
        inside = None
        nsys = 0
        for line in log.read_text(errors="replace").splitlines():
            if "CFDPMON-MARK-BEGIN-" in line:
                inside = int(line.split("CFDPMON-MARK-BEGIN-")[1].split('"')[0])
                obs["strace_markers_seen"] = obs.get("strace_markers_seen", 0) + 1
                continue
            if "CFDPMON-MARK-END-" in line:
                inside = None
                continue
            if inside is not None:
                nsys += 1
                if sandboxes[inside] in line:
                    if len(viol) < 4:
                        viol.append({"clause": "host-file-system-syscall-on-transfer-path", "syscall": line[:300], "transfer": inside})
        if obs.get("strace_markers_seen", 0) != len(sandboxes):
            return {"viol": [], "obs": {"strace_unavailable": 1}, "sig": None, "sample": {"markers_seen": obs.get("strace_markers_seen", 0), "transfers": len(sandboxes)}}
        obs["strace_transfers"] = len(sandboxes)
        obs["strace_file_syscalls_during_transfers"] = nsys
        return {"viol": viol, "obs": obs, "sig": case, "sample": {"transfers_under_strace": len(sandboxes), "file_syscalls_between_markers": nsys}}
    finally:
        import shutil

        shutil.rmtree(d, ignore_errors=True)


def run_two_users(case):
    from .. import prep

    viol, obs = [], {}
    cfg_a = dict(case["cfg"], fs="mem", root_tag="shared-by-two-users", content=case["contents"][0], mode="ack")
    cfg_b = dict(case["cfg"], fs="mem", root_tag="shared-by-two-users", content=case["contents"][1])

    def run_b():
        w = World(cfg_b)
        r = Runner(w, max_expiries=10, max_rounds=1500)
        try:
            w.put()
            out = r.run()
        except InternalError as e:
            out = "internal-error:" + type(e.exc).__name__
        return w, out

    wb0, out0 = run_b()
    t_solo, dest_solo = normalized_trace(wb0), wb0.dest_bytes()
    wb0.close()
    with World(cfg_a) as wa:
        if not prep.src_to(wa, case["other_at"]):
            return {"viol": [{"clause": "harness-could-not-prepare-other-user", "step": wa.S.h.step.name}], "obs": obs, "sig": None, "sample": None}
        wb, out = run_b()
        try:
            t_b, dest_b = normalized_trace(wb), wb.dest_bytes()
            ops_b = [e["op"] for e in wb.log.events if e["kind"] == "fs" and e["side"] == "S"]
            if out != out0 or t_b != t_solo:
                j = next((i for i, (a, b) in enumerate(zip(t_solo, t_b)) if a != b), min(len(t_solo), len(t_b)))
                viol.append({"clause": "transfer-differs-next-to-another-user-with-equal-path-names", "first_difference_at": j, "alone": _brief(t_solo[j : j + 2]),
                             "next_to_other_user": _brief(t_b[j : j + 2]), "outcomes": (out0, out), "other_user_at": case["other_at"]})
            elif dest_b != dest_solo or dest_b != wb.data:
                viol.append({"clause": "destination-file-differs-next-to-another-user", "other_user_at": case["other_at"]})
            else:
                obs["two_user_runs_equal_to_solo"] = 1
            if "calculate_checksum" not in ops_b:
                viol.append({"clause": "sender-never-asked-its-own-filestore-for-the-checksum", "ops": ops_b[:12]})
        finally:
            wb.close()
    obs["two_user_runs"] = 1
    obs["two_user_other_at_" + case["other_at"]] = 1
    for v in viol:
        v["cfg"] = case["cfg"]
    return {"viol": viol, "obs": obs, "sig": case, "sample": None}


def run_case(case):
    if case["t"] == "two_users":
        return run_two_users(case)
    return run_pair(case) if case["t"] == "pair" else run_strace(case)


def finalize(ctx):
    inc = []
    if ctx["obs"].get("strace_unavailable") and ctx["tier"] == "thorough":
        inc.append("strace could not be run: the ground-truth part of the check did not execute")
    return [], inc


REQUIRED = {"runs_with_reset_in_the_middle": 100, "two_user_runs_equal_to_solo": 100, "traces_equal_to_native": 500, "filestore_operations_in_memory_run": 10000, "cancel_time_checksums": 50, "faulty_runs": 300, "runs_with_retransmission": 100,
            "op_read_data": 1, "op_write_data": 1, "op_calculate_checksum": 1, "op_file_size": 1, "op_file_exists": 1, "op_create_file": 1, "op_truncate_file": 1,
            "op_delete_file": 1, "op_is_directory": 1, "strace_transfers": {"quick": 0, "thorough": 10}}
