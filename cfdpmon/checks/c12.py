"""C12 - cancellation takes effect immediately and is signalled correctly."""
from __future__ import annotations

import functools
import itertools
import random

from .. import models
from ..msgs import request_extras
from ..oracles import C01Monitor, trace_summary
from .. import wire
from ..world import EnumPlan, InternalError, Plan, Runner, World

PROP = "C12"
LEVEL = "fault_enumeration"
TECHNIQUE = "runtime monitoring of the real handler pair with a cancel request (right or wrong transaction id) injected before every scheduler round of a clean run and of every single-loss run; oracle over the recorded API results, emitted PDUs (EOF(cancel) size/checksum vs. an independent count of file bytes sent, Finished PDU condition/fault location), indications and destination file presence"
RULE = (
    "a case = (configuration: mode x closure x disposition-on-cancellation x checksum {CRC-32, modular} x size {0, 1 segment, 3 segments+1}, cancelling side, "
    "cancel point = scheduler round r (every round of the run), right/wrong id, optional single dropped PDU).  Enumerated completely within these bounds "
    "(quick: losses only for the 3-segment file), plus seeded random multi-fault runs.  Non-trivial = the cancel request returned true; distinct = distinct cases"
)
ASSUMPTIONS = [
    "the queue is drained before cancel_request is called (documented duty); 'next PDU emitted' = first PDU retrieved after the cancel call",
    "an EOF(cancel) that arrives after the receiver already delivered its Transaction-Finished cannot change the completion and is only required to be harmless",
    "clause 'incomplete file deleted exactly when configured' is judged only when the Metadata PDU was received (otherwise no file was ever created)",
]
SEG = 4


def base(mode, closure, disp, cks, size):
    return {"mode": mode, "closure": closure, "disp": disp, "cks": cks, "size": size, "seg": SEG, "ack_limit": 3, "nak_limit": 3, "content": size % 5}


@functools.lru_cache(maxsize=None)
def clean_shape(key):
    cfg = dict(key)
    with World(cfg) as w:
        r = Runner(w)
        w.put()
        r.run()
        return r.rounds, r.emit_idx


class DropsAndSlowNaks(Plan):
    """the given emissions are lost; every NAK PDU reaches the sender ``delay`` rounds late"""

    def __init__(self, drops, delay):
        super().__init__()
        self.drops, self.delay = set(drops), delay

    def on_emit(self, idx, item):
        d = item["d"]
        if idx in self.drops:
            self.applied.append((idx, "drop", wire.short(d), item["side"]))
            return []
        if self.delay and item["side"] == "D" and d.get("kind") == "NAK":
            self.applied.append((idx, f"delay{self.delay}", wire.short(d), "D"))
            return [(("delay", self.delay), item["raw"])]
        return [("now", item["raw"])]


class MdLostRacePlan(Plan):
    """Every Metadata PDU is lost; an EOF (cancel) reaches the receiver in the very call which notices its next timer expiry."""

    def on_emit(self, idx, item):
        d = item["d"]
        if item["side"] == "S" and d.get("kind") == "MD":
            self.applied.append((idx, "drop", wire.short(d), "S"))
            return []
        if item["side"] == "S" and d.get("kind") == "EOF" and d.get("cond") != "NO_ERROR":
            self.applied.append((idx, "race", wire.short(d), "S"))
            return [("race", item["raw"])]
        return [("now", item["raw"])]


@functools.lru_cache(maxsize=None)
def md_lost_rounds(key):
    with World(dict(key)) as w:
        r = Runner(w, plan=MdLostRacePlan(), max_expiries=12, max_rounds=400)
        w.put()
        r.run()
        return r.rounds


def gen_cases(tier, seed):
    cases = []
    # the Metadata PDU never arrives: the receiver's deferred procedure re-requests it until the NAK limit; the sender's user cancels at
    # every round of that, and the EOF (cancel) is handed over together with the receiver's next timer expiry
    for limit, imm in itertools.product((2, 3), (False,)):  # (with immediate NAKs every File Data PDU without metadata triggers a re-request)
        cfg = dict(base("ack", False, False, "crc32", 9), nak_limit=limit, imm_nak=imm)
        for r in range(md_lost_rounds(tuple(sorted(cfg.items()))) + 1):
            cases.append({"cfg": cfg, "side": "S", "round": r, "wrong": False, "drop": None, "md_lost_race": True})
    for mode, closure, disp, cks, size in itertools.product(("ack", "unack"), (False, True), (False, True), ("crc32", "modular"), (0, 4, 13)):
        cfg = base(mode, closure, disp, cks, size)
        rounds, nemit = clean_shape(tuple(sorted(cfg.items())))
        for side in ("S", "D"):
            for r in range(rounds + 2):
                cases.append({"cfg": cfg, "side": side, "round": r, "wrong": False, "drop": None})
                if r % 2 == 0:
                    cases.append({"cfg": cfg, "side": side, "round": r, "wrong": True, "drop": None})
                if size == 13 or tier == "thorough":
                    drops = range(nemit) if (tier == "thorough" or (cks == "crc32" and not disp)) else ()
                    for k in drops:
                        cases.append({"cfg": cfg, "side": side, "round": r, "wrong": False, "drop": k})
    # two lost File Data PDUs (acknowledged mode, immediate NAKs: two NAKs reach the sender at different steps) x cancel at every round
    cfg = dict(base("ack", False, False, "crc32", 17), imm_nak=True)
    rounds, nemit = clean_shape(tuple(sorted(cfg.items())))
    for p1, p2 in itertools.combinations(range(1, 6), 2):
        for r in range(rounds + 4):
            for nak_delay in (0, 1, 2, 3):
                cases.append({"cfg": cfg, "side": "S", "round": r, "wrong": False, "drop": [p1, p2], "nak_delay": nak_delay})
    # the same cancel points on handlers which already went through another transaction
    for mode, closure, prior in itertools.product(("ack", "unack"), (False, True), ("completed", "cancelled_S", "cancelled_D", "reset_undrained")):
        cfg = base(mode, closure, True, "crc32", 13)
        rounds, nemit = clean_shape(tuple(sorted(cfg.items())))
        for side in ("S", "D"):
            for r in range(0, rounds + 2):
                cases.append({"cfg": cfg, "side": side, "round": r, "wrong": False, "drop": None, "prior": prior})
    for mode, closure in itertools.product(("ack", "unack"), (False, True)):
        cfg = base(mode, closure, False, "crc32", 0)
        cfg["metadata_only"] = True
        for side in ("S", "D"):
            for r in range(5):
                cases.append({"cfg": cfg, "side": side, "round": r, "wrong": False, "drop": None})
    # EOF (cancel) PDUs as another implementation may send them: every condition code, with and without a fault location TLV
    for (mode, closure), cond, tlv in itertools.product((("ack", False), ("unack", True), ("unack", False)),
                                                        ("CANCEL_REQUEST_RECEIVED", "POSITIVE_ACK_LIMIT_REACHED", "NAK_LIMIT_REACHED", "FILE_CHECKSUM_FAILURE", "FILE_SIZE_ERROR",
                                                         "FILESTORE_REJECTION", "INACTIVITY_DETECTED", "CHECK_LIMIT_REACHED", "KEEP_ALIVE_LIMIT_REACHED", "SUSPEND_REQUEST_RECEIVED"),
                                                        (None, 1, 2, 7)):
        for md, nfd in ((True, 0), (True, 2), (False, 1)):
            cases.append({"t": "scripted_eof_cancel", "mode": mode, "closure": closure, "cond": cond, "tlv": tlv, "md": md, "nfd": nfd, "disp": bool((nfd + (tlv or 0)) % 2)})
    rng = random.Random(99 + seed)
    n = 1500 if tier == "quick" else 20000
    for i in range(n):
        cfg = base(rng.choice(["ack", "unack"]), rng.random() < 0.5, rng.random() < 0.5, rng.choice(["crc32", "crc32c", "modular", "null"]),
                   rng.choice([0, 3, 4, 9, 13, 25]))
        if cfg["cks"] in ("modular", "null") and rng.random() < 0.7:
            cfg["mode"] = "ack"
        cfg["imm_nak"] = rng.random() < 0.5
        cfg["seg"] = rng.choice([3, 4, 5, 10])  # prefixes which are not a multiple of the checksum word size
        cases.append({"cfg": cfg, "side": rng.choice("SD") if i % 3 else "S", "round": rng.randrange(0, 14), "wrong": rng.random() < 0.1,
                      "drop": None, "rand": seed * 1_000_003 + i})
        cfg["scribble_pdus"], cfg["scribble_user"] = rng.random() < 0.2, rng.random() < 0.2
        cfg.update(request_extras(rng, 0.15))  # options and (binary) messages to user in the put request
        cases[-1]["pacing"] = rng.choice([None, None, {"src_calls": 3}, {"src_calls": 6}, {"dst_calls": 3}, {"src_calls": 2, "dst_calls": 2}, {"dst_idle": 2}, {"src_idle": 2, "dst_calls": 2}])
        if i % 3 == 1:
            # before (or in the same round as) the cancel the user issues a put request towards another entity: refused, no influence
            cases[-1]["busy_put"] = rng.randrange(0, cases[-1]["round"] + 1)
    return cases


def run_scripted_eof_cancel(case):
    """The harness plays the sender: Metadata and file data as told, then an EOF (cancel) with any condition code, with or without a fault
    location TLV (naming the sender, the receiver or a third entity).  The transaction finishes with the EOF's condition and the *sender*
    as fault location (indication and, with closure or in acknowledged mode, Finished PDU)."""
    from .. import pdugen, prep

    cfg = {"mode": case["mode"], "closure": case["closure"], "size": 12, "seg": 4, "fs": "mem", "disp": case["disp"], "ack_ivl": 50.0, "nak_ivl": 50.0}
    viol, obs = [], {}
    with World(cfg) as w:
        D = w.D
        tc = prep.tx_conf(w)
        steps = []
        if case["md"]:
            steps.append(pdugen.raw("MD", tc, {"size": 12, "cks": "crc32", "closure": case["closure"], "src_name": w.src_path.as_posix(), "dst_name": w.dst_req_path.as_posix()}))
        for i in range(case["nfd"]):
            steps.append(pdugen.raw("FD", tc, {"offset": 4 * i, "data": w.data[4 * i : 4 * i + 4]}))
        sent = 4 * case["nfd"]
        f = {"size": sent, "cksum": models.checksum("crc32", w.data[:sent]), "cond": case["cond"]}
        if case["tlv"] is not None:
            f["fault_loc"] = bytes([0, case["tlv"]])
        steps.append(pdugen.raw("EOF", tc, f))
        try:
            for raw in steps:
                e = prep.feed(D, raw)
                if e is not None:
                    obs["scripted_pdu_refused_" + type(e).__name__] = 1
            for _ in range(3):
                D.sm()
        except Exception as e:  # noqa: BLE001
            viol.append({"clause": "internal-exception", "etype": type(e).__name__, "msg": str(e)[:150]})
        fins = [e["fin"] for e in w.log.of("ind_finished", "D")]
        finp = [e["d"] for e in w.log.of("tx", "D") if e["d"].get("kind") == "FIN"]
        if not case["md"] and case["mode"] == "unack":
            obs["scripted_eof_cancel_without_transaction"] = 1  # nothing to finish: the first PDU of an unacknowledged transaction must be Metadata
        elif not viol:
            if len(fins) != 1 or fins[0][0] != case["cond"] or fins[0][3] != 1:
                viol.append({"clause": "eof-cancel-completion-condition-or-fault-location", "eof": case["cond"], "eof_fault_location_tlv": case["tlv"], "fins": fins})
            wants_pdu = case["mode"] == "ack" or case["closure"]
            if wants_pdu and (len(finp) < 1 or any("error" not in d and (d.get("cond") != case["cond"] or d.get("fault_loc") != 1) for d in finp)):
                viol.append({"clause": "eof-cancel-finished-pdu", "eof": case["cond"], "eof_fault_location_tlv": case["tlv"], "fin_pdus": [wire.short(d) for d in finp]})
            obs["scripted_eof_cancels_judged"] = 1
            obs["scripted_eof_cancels_with_foreign_fault_location"] = int(case["tlv"] not in (None, 1))
        for v in viol:
            v["case"] = case
            v["trace"] = trace_summary(w, None, 30)
    return {"viol": viol, "sig": case, "obs": obs, "sample": None}


def run_case(case):
    if case.get("t") == "scripted_eof_cancel":
        return run_scripted_eof_cancel(case)
    cfg = case["cfg"]
    viol = []
    obs = {}
    with World(cfg) as w:
        mon = C01Monitor(w)
        if case.get("rand") is not None:
            from ..world import RandomPlan

            plan = RandomPlan(case["rand"], {"drop": 0.08, "dup": 0.05, "delay": 0.05, "late": 0.02}, max_faults=3)
        else:
            drops = [] if case["drop"] is None else (case["drop"] if isinstance(case["drop"], list) else [case["drop"]])
            plan = EnumPlan({k: "drop" for k in drops}) if not case.get("nak_delay") else DropsAndSlowNaks(drops, case["nak_delay"])
        if case.get("md_lost_race"):
            plan = MdLostRacePlan()
            obs["cancels_with_metadata_never_arriving"] = 1
        acts = {case["round"]: [("cancel", case["side"]) + (("wrong",) if case["wrong"] else ())]}
        if case.get("busy_put") is not None:
            acts.setdefault(case["busy_put"], []).insert(0, ("put_third",))
        r = Runner(w, plan=plan, actions=acts, max_expiries=30, max_rounds=2000, pacing=case.get("pacing"))
        # observer for the file presence clause, evaluated inside the indication callback
        md_seen = {"v": False}

        complete_at_rx = {}

        def ob(ev):
            if ev["kind"] == "ind_metadata_recv":
                md_seen["v"] = True
            if ev["kind"] == "rx" and ev["side"] == "D" and ev["d"].get("kind") == "EOF":
                complete_at_rx[ev["seq"]] = w.dest_bytes() == w.data
            if ev["kind"] == "ind_finished" and ev["side"] == "D" and ev["fin"][0] != "NO_ERROR" and md_seen["v"] and not cfg.get("metadata_only"):
                present = w.dest_bytes() is not None
                incomplete = ev["fin"][1] == "DATA_INCOMPLETE"
                want_present = not (cfg["disp"] and incomplete)
                obs["file_presence_judged"] = obs.get("file_presence_judged", 0) + 1
                if cfg["disp"] and incomplete:
                    obs["file_deletions_expected"] = obs.get("file_deletions_expected", 0) + 1
                if present != want_present:
                    viol.append({"clause": "incomplete-file-deletion-differs-from-disposition", "present": present, "disp": cfg["disp"], "fin": ev["fin"]})

        w.log.observers.append(ob)
        mark_idx = 0
        try:
            if case.get("prior"):
                # the handlers already went through a transaction (completed, or cancelled by either side) before the one that is judged
                pacts = {} if case["prior"] in ("completed", "reset_undrained") else {2: [("cancel", "S" if case["prior"] == "cancelled_S" else "D")]}
                pr = Runner(w, actions=pacts, max_expiries=30, max_rounds=2000)
                w.put()
                if case["prior"] == "reset_undrained":
                    # ... at the moment the EOF PDU is about to reach the receiver (its answer stays in the queue)
                    for _ in pr.steps():
                        if pr.s2d and wire.kind_of(pr.s2d[0]) == "EOF":
                            break
                else:
                    pr.run()
                if case["prior"] == "reset_undrained":
                    # the user gives the first transaction up in the middle: one more call per side whose PDUs are not retrieved, then reset()
                    for ep, q in ((w.D, pr.s2d), (w.S, pr.d2s)):
                        ep.autodrain = False
                        try:
                            try:
                                if q:
                                    raw = q.pop(0)
                                    ep.sm(wire.parse(raw), {"kind": wire.kind_of(raw)})
                                else:
                                    ep.sm()
                            except Exception:  # noqa: BLE001
                                pass
                            ep.reset()
                        finally:
                            ep.autodrain = True
                        ep.drain()
                    w.cfg["seq_start"] = w.cfg["seq_start"]
                for ep in (w.S, w.D):
                    if ep.h.state.name != "IDLE":
                        ep.reset()
                        ep.drain()
                    ep.outbox.clear()
                md_seen["v"] = False
                complete_at_rx.clear()
                obs.clear()
                viol.clear()
                mark_idx = len(w.log.events)
                obs["judged_on_reused_handlers"] = 1
            w.put()
            outcome = r.run()
        except InternalError as e:
            outcome = "internal-error"
            viol.append({"clause": "api-call-raised", "side": e.side, "etype": type(e.exc).__name__, "msg": str(e.exc)[:150]})
        evs = w.log.events[mark_idx:]
        act = next((e for e in evs if e["kind"] == "action" and e["what"] == "cancel"), None)
        if act is None:
            obs["cancel_not_reached"] = 1
        else:
            call = next(e for e in reversed(evs[: evs.index(act)]) if e["kind"] == "call" and e["api"] == "cancel_request")
            st_before = call["before"]  # (state, step, progress, file_size, tid, nready)
            busy_with_id = st_before[0] == "BUSY" and st_before[4] is not None and not case["wrong"]
            res = act["res"]
            if res is None:
                obs["cancel_raised_protocol_exception"] = 1
                if call.get("queued") == 0:
                    # (the bench retrieves every PDU before it calls cancel_request)
                    viol.append({"clause": "cancel-request-raised-although-no-pdu-was-waiting", "handler_before": st_before,
                                 "exc": [x for x in r.proto_exc if x[2] == "cancel"][:1]})
            elif bool(res) != busy_with_id:
                viol.append({"clause": "cancel-request-result", "returned": res, "handler_before": st_before, "wrong_id": case["wrong"]})
            ret = next((e for e in evs[evs.index(call):] if e["kind"] in ("ret", "exc") and e.get("call_seq") == call["seq"]), None)
            if res is False and ret is not None and ret["kind"] == "ret" and ret["after"] != st_before:
                viol.append({"clause": "refused-cancel-changed-state", "before": st_before, "after": ret["after"]})
            if res is True and case["side"] == "S":
                obs["sender_cancels"] = 1
                sent = 0
                for e in evs[: evs.index(call)]:
                    if e["kind"] == "tx" and e["side"] == "S" and e["d"].get("kind") == "FD":
                        sent = max(sent, e["d"]["offset"] + e["d"]["dlen"])
                already_cancelled = any(e["kind"] == "tx" and e["side"] == "S" and e["d"].get("kind") == "EOF" and e["d"].get("cond") != "NO_ERROR"
                                        for e in evs[: evs.index(call)])
                after = [e for e in evs[evs.index(call):] if e["kind"] == "tx" and e["side"] == "S"]
                if not already_cancelled:
                    if not after:
                        viol.append({"clause": "no-eof-after-sender-cancel"})
                    else:
                        d = after[0]["d"]
                        want_ck = models.checksum(cfg["cks"], w.data[:sent]).hex()
                        if d.get("kind") != "EOF" or d.get("cond") != "CANCEL_REQUEST_RECEIVED":
                            viol.append({"clause": "next-pdu-after-cancel-not-eof-cancel", "got": {k: v for k, v in d.items() if k not in ("h", "data")}})
                        elif d["size"] != sent or d["cksum"] != want_ck:
                            viol.append({"clause": "eof-cancel-size-or-checksum", "eof_size": d["size"], "bytes_sent": sent, "eof_cksum": d["cksum"], "want_cksum": want_ck})
                        else:
                            obs["eof_cancel_checked"] = 1
                            if 0 < sent < len(w.data):
                                obs["eof_cancel_mid_file"] = 1
                        for e in after:
                            if e["d"].get("kind") == "FD" and e["d"]["offset"] + e["d"]["dlen"] > sent:
                                viol.append({"clause": "new-file-data-after-cancel", "fd": [e["d"]["offset"], e["d"]["dlen"]], "bytes_sent": sent})
                                break
            if res is True and case["side"] == "D":
                obs["receiver_cancels"] = 1
                later = evs[evs.index(call):]
                fins = [e for e in later if e["kind"] == "ind_finished" and e["side"] == "D"]
                if not fins or fins[0]["fin"][0] != "CANCEL_REQUEST_RECEIVED":
                    viol.append({"clause": "receiver-cancel-no-transaction-finished-with-condition", "fins": [f["fin"] for f in fins]})
                closure_or_ack = cfg["mode"] == "ack" or cfg["closure"]
                finp = [e["d"] for e in later if e["kind"] == "tx" and e["side"] == "D" and e["d"].get("kind") == "FIN"]
                if closure_or_ack:
                    if not finp or finp[0].get("cond") != "CANCEL_REQUEST_RECEIVED" or finp[0].get("fault_loc") != 2:
                        viol.append({"clause": "receiver-cancel-finished-pdu", "fin_pdus": [{k: v for k, v in d.items() if k != "h"} for d in finp[:2]]})
                    else:
                        obs["receiver_cancel_finished_pdu_checked"] = 1
                elif finp:
                    viol.append({"clause": "finished-pdu-without-closure", "fin_pdus": len(finp)})
        # EOF(cancel) accepted by the receiver before it had completed
        idx_first_dfin = next((i for i, e in enumerate(evs) if e["kind"] == "ind_finished" and e["side"] == "D"), None)
        for i, e in enumerate(evs):
            if e["kind"] == "rx" and e["side"] == "D" and e["d"].get("kind") == "EOF" and e["d"].get("cond") not in (None, "NO_ERROR"):
                nxt = evs[i + 1] if i + 1 < len(evs) else None
                if nxt is None or nxt["kind"] != "call":
                    continue  # handled by the shell (closed transaction), not by the handler
                outcome_ev = next((x for x in evs[i + 1 :] if x["kind"] in ("ret", "exc") and x.get("call_seq") == nxt["seq"]), None)
                if outcome_ev is None or outcome_ev["kind"] == "exc":
                    continue
                if idx_first_dfin is not None and idx_first_dfin < i:
                    obs["eof_cancel_after_completion"] = obs.get("eof_cancel_after_completion", 0) + 1
                    continue
                if any((x["kind"] == "action" and x["side"] == "D" and x["res"] is True) or (x["kind"] == "fh" and x["side"] == "D" and x["which"] == "cancel")
                       for x in evs[:i]):
                    # the receiver had already cancelled the transaction itself (cancel request / fault): the first cancellation decides
                    obs["eof_cancel_after_local_cancel_not_judged"] = obs.get("eof_cancel_after_local_cancel_not_judged", 0) + 1
                    continue
                noerr_before = any(x["kind"] == "rx" and x["side"] == "D" and x["d"].get("kind") == "EOF" and x["d"].get("cond") == "NO_ERROR" for x in evs[:i])
                if noerr_before and complete_at_rx.get(e["seq"]):
                    # the receiver already holds the complete file and the EOF (no error): the transaction is complete in all but the
                    # pending notice of completion; finishing it with NO_ERROR is truthful and not judged
                    obs["eof_cancel_after_complete_eof_not_judged"] = obs.get("eof_cancel_after_complete_eof_not_judged", 0) + 1
                    continue
                end = idx_first_dfin if idx_first_dfin is not None else len(evs)
                if any(x["kind"] == "action" and x["side"] == "D" and x.get("what") == "cancel" and x["res"] is True for x in evs[i:end]):
                    # the user's own cancel request was accepted after the EOF (cancel) and before the notice of completion: the property's
                    # sentence on cancel requests (judged above) and the one on a received EOF (cancel) ask for different conditions; the
                    # library lets the request decide, which satisfies the former, and this clause is not applied
                    obs["eof_cancel_followed_by_accepted_cancel_request_not_judged"] = obs.get("eof_cancel_followed_by_accepted_cancel_request_not_judged", 0) + 1
                    continue
                obs["eof_cancel_accepted_by_receiver"] = obs.get("eof_cancel_accepted_by_receiver", 0) + 1
                fins = [x for x in evs[i:] if x["kind"] == "ind_finished" and x["side"] == "D"]
                cond = e["d"]["cond"]
                if not fins:
                    if outcome == "done":
                        viol.append({"clause": "eof-cancel-received-but-no-transaction-finished", "eof": cond})
                elif fins[0]["fin"][0] != cond or fins[0]["fin"][3] != 1:
                    viol.append({"clause": "eof-cancel-completion-condition-or-fault-location", "eof": cond, "fin": fins[0]["fin"]})
                else:
                    obs["eof_cancel_completion_checked"] = obs.get("eof_cancel_completion_checked", 0) + 1
                finp = [x["d"] for x in evs[i:] if x["kind"] == "tx" and x["side"] == "D" and x["d"].get("kind") == "FIN"]
                if (cfg["mode"] == "ack" or cfg["closure"]) and finp and (finp[0].get("cond") != cond or finp[0].get("fault_loc") != 1):
                    viol.append({"clause": "eof-cancel-finished-pdu", "eof": cond, "fin_pdu": {k: v for k, v in finp[0].items() if k != "h"}})
                break
        # every copy of the EOF (cancel) of a transaction is the same PDU (re-sent at the positive ACK timer's expiry)
        by_tid = {}
        for e in evs:
            if e["kind"] == "tx" and e["side"] == "S" and e["raw"] and e["d"].get("kind") == "EOF" and e["d"].get("cond") == "CANCEL_REQUEST_RECEIVED":
                by_tid.setdefault(e["d"]["h"]["seq"], []).append(e["raw"])
        for seqn, raws in by_tid.items():
            if len(set(raws)) > 1:
                viol.append({"clause": "re-sent-eof-cancel-differs-from-the-first-one", "copies": [wire.short(wire.describe(x)) for x in raws[:3]],
                             "hex": [x.hex() for x in raws[:2]]})
            elif len(raws) > 1:
                obs["eof_cancel_resends_identical"] = obs.get("eof_cancel_resends_identical", 0) + 1
        viol += mon.viol
        for v in viol:
            v["trace"] = trace_summary(w, r, 70)
            v["cancel"] = [case["side"], case["round"], case["wrong"], case["drop"]]
        obs["outcome_" + outcome] = 1
        obs["success_reports_checked"] = mon.success_reports
        sig = case if (act is not None and act["res"] is True) else None
        sample = {"cancel": [case["side"], case["round"]], "trace": trace_summary(w, r, 40)} if sig and case["round"] > 2 else None
        if r.refused_puts:
            obs["refused_put_requests_before_cancel"] = r.refused_puts
            if any(e["kind"] == "action" and e["what"] == "put_third" and e["res"] is not False for e in evs):
                viol.append({"clause": "put-request-while-busy-not-refused"})
        return {"viol": viol, "sig": sig, "obs": obs, "sample": sample}


def exhaustive(tier):
    return False


REQUIRED = {"cancels_with_metadata_never_arriving": 20, "refused_put_requests_before_cancel": 50, "sender_cancels": 50, "receiver_cancels": 50, "eof_cancel_checked": 30, "eof_cancel_mid_file": 5, "eof_cancel_completion_checked": 20,
            "receiver_cancel_finished_pdu_checked": 20, "file_deletions_expected": 5, "file_presence_judged": 20, "judged_on_reused_handlers": 100,
            "scripted_eof_cancels_judged": 200, "scripted_eof_cancels_with_foreign_fault_location": 100}
