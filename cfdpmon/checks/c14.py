"""C14 - declared faults take the effect configured in the fault-handler table."""
from __future__ import annotations

import itertools
import random

from spacepackets.cfdp import ConditionCode, FaultHandlerCode

from cfdppy.mib import DefaultFaultHandlerBase

from .. import pdugen, vclock, wire
from ..oracles import trace_summary
from ..rec import RecFaultHandler, EventLog, tid_key
from ..world import FHC, InternalError, Plan, Runner, World, flip_payload_bit

PROP = "C14"
LEVEL = "exploration"
TECHNIQUE = "runtime monitoring of the real handler pair under fault stimuli with every handler code configured for every declarable condition: fault declarations are observed independently of the callbacks by an instance-level spy on the declaration entry point (call and return events on the shared counter), and each declaration is judged against the configured table entry: exactly one callback of the configured kind with (transaction id, condition, progress at declaration) inside the declaration, then continue / cancel with that condition in EOF(cancel) or Finished PDU and Transaction-Finished / silent drop to idle; indications without transaction id and internal exceptions are violations; set_handler is probed over all condition x handler codes"
RULE = (
    "matrix cases = stimulus {sender ACK limit, sender check limit, receiver ACK limit, NAK limit, receiver check limit, corrupted file data (checksum failure, "
    "both modes), EOF size below progress, file data beyond EOF size, filestore rejection at create / truncate / first write (PermissionError, "
    "FileNotFoundError), cancel request at either side} x handler code {ignore, cancel, abandon} for the triggered condition on the owning side x closure x "
    "NAK mode x size; random cases = random stimuli combined with a random table for all conditions on both sides; api cases = set_handler over all condition "
    "codes x handler codes.  Non-trivial = at least one fault declaration was judged; distinct = distinct cases"
)
ASSUMPTIONS = [
    "NOTICE_OF_SUSPENSION is documented as not implemented and not configured here",
    "CFDP 4.11.2.2.3 / 4.11.2.3.2 as implemented: a fault declared while the transaction's EOF(cancel) is being transferred abandons the transaction whatever the table says; such declarations are judged as abandonment with the condition of the pending cancellation",
    "a Cancel.request is not a fault declaration: it always causes a notice of cancellation (CFDP 4.11.2.1) and only the absence of side effects on the fault callbacks is checked",
    "'reported to the user' is judged on the side that declares: the fault callback itself and, where that side issues a Transaction-Finished for the transaction, its condition code",
    "timers of the two sides are decoupled (very long intervals on the side that must not declare first) in the matrix cases",
]
TABLE_CONDS = ["POSITIVE_ACK_LIMIT_REACHED", "NAK_LIMIT_REACHED", "CHECK_LIMIT_REACHED", "FILE_CHECKSUM_FAILURE", "FILE_SIZE_ERROR", "FILESTORE_REJECTION",
               "CANCEL_REQUEST_RECEIVED"]
KIND_OF = {"ignore": "ignore", "cancel": "cancel", "abandon": "abandon"}
DEFAULTS = {c: "cancel" for c in TABLE_CONDS}
DEFAULTS["FILE_CHECKSUM_FAILURE"] = "ignore"

MODS = ["eof_lost", "ackeof_lost", "fin_lost", "nak_lost", "dup_fd", "dup_eof", "dup_md", "dup_fin"]
STIMULI = {
    # name: (owning side, condition, mode, needs closure)
    "src_ack_limit": ("S", "POSITIVE_ACK_LIMIT_REACHED", "ack", None),
    "src_check_limit": ("S", "CHECK_LIMIT_REACHED", "unack", True),
    "dst_ack_limit": ("D", "POSITIVE_ACK_LIMIT_REACHED", "ack", None),
    "dst_nak_limit": ("D", "NAK_LIMIT_REACHED", "ack", None),
    "dst_check_limit": ("D", "CHECK_LIMIT_REACHED", "unack", None),
    "checksum_ack": ("D", "FILE_CHECKSUM_FAILURE", "ack", None),
    "checksum_unack": ("D", "FILE_CHECKSUM_FAILURE", "unack", None),
    "size_error_eof": ("D", "FILE_SIZE_ERROR", None, None),
    "size_error_fd": ("D", "FILE_SIZE_ERROR", None, None),
    "size_error_fd_race": ("D", "FILE_SIZE_ERROR", None, None),
    "reject_create": ("D", "FILESTORE_REJECTION", None, None),
    "reject_truncate": ("D", "FILESTORE_REJECTION", None, None),
    "reject_write_perm": ("D", "FILESTORE_REJECTION", None, None),
    "reject_write_notfound": ("D", "FILESTORE_REJECTION", None, None),
    "cancel_src": ("S", "CANCEL_REQUEST_RECEIVED", None, None),
    "cancel_dst": ("D", "CANCEL_REQUEST_RECEIVED", None, None),
}


class StimPlan(Plan):
    def __init__(self, stim, rng, md_lost=False, mods=()):
        super().__init__()
        self.stim = set(stim)
        self.rng = rng
        self.flipped = False
        self.md_lost = md_lost
        self.mods = set(mods)

    def on_emit(self, idx, item):
        d, raw, side = item["d"], item["raw"], item["side"]
        k = d.get("kind")
        st = self.stim
        if self.md_lost and side == "S" and k == "MD" and not d["h"]["unack"]:
            # the first copy of the Metadata PDU is lost (acknowledged mode): it is re-requested and arrives after file data / EOF
            self.md_lost = False
            self.applied.append((idx, "drop", wire.short(d), side))
            return []
        # schedule modifiers (acknowledged mode): the first copy of one PDU kind is lost, or every PDU of one kind arrives twice
        for mod, kind in (("eof_lost", "EOF"), ("ackeof_lost", "ACK_EOF"), ("fin_lost", "FIN"), ("nak_lost", "NAK")):
            if mod in self.mods and k == kind and not d["h"]["unack"]:
                self.mods.discard(mod)
                self.applied.append((idx, "drop", wire.short(d), side))
                return []
        for mod, kind in (("dup_fd", "FD"), ("dup_eof", "EOF"), ("dup_md", "MD"), ("dup_fin", "FIN")):
            if mod in self.mods and k == kind and not (set(st) & {"size_error_eof", "size_error_fd", "size_error_fd_race", "checksum_ack", "checksum_unack"}):
                self.applied.append((idx, "dup", wire.short(d), side))
                return [("now", raw), ("now", raw)]
        if side == "D" and ("src_ack_limit" in st or "src_check_limit" in st):
            self.applied.append((idx, "drop", wire.short(d), side))
            return []
        if side == "S" and k == "ACK_FIN" and "dst_ack_limit" in st:
            self.applied.append((idx, "drop", wire.short(d), side))
            return []
        if side == "S" and k == "FD" and d.get("offset") == 4 and ("dst_nak_limit" in st or "dst_check_limit" in st):
            self.applied.append((idx, "drop", wire.short(d), side))
            return []
        if side == "S" and k == "FD" and d.get("offset") == 4 and ("checksum_ack" in st or "checksum_unack" in st) and not self.flipped:
            nr = flip_payload_bit(raw, d, self.rng)
            if nr is not None:
                # every copy of this segment is corrupted the same way (also retransmissions), so the checksum can never match
                self.applied.append((idx, "flip", wire.short(d), side))
                return [("now", nr)]
        if side == "S" and k == "EOF" and d.get("cond") == "NO_ERROR" and ("size_error_eof" in st or "size_error_fd" in st or "size_error_fd_race" in st):
            small = max(0, d["size"] - 3)
            conf = pdugen.conf(d["h"]["src"], d["h"]["dst"], d["h"]["seq"], idw=d["h"]["idw"], seqw=d["h"]["seqw"], mode="unack" if d["h"]["unack"] else "ack", crc=d["h"]["crc"])
            nr = pdugen.raw("EOF", conf, {"size": small, "cksum": bytes.fromhex(d["cksum"])})
            self.applied.append((idx, "eof-size-reduced", wire.short(d), side))
            return [("now", nr)]
        if side == "S" and k == "FD" and "size_error_fd" in st and d.get("offset", 0) + d.get("dlen", 0) >= 9 and not self.flipped:
            # the last segment overtaken by the (shrunk) EOF
            self.applied.append((idx, "delay", wire.short(d), side))
            return [(("delay", 2), raw)]
        if side == "S" and k == "FD" and "size_error_fd_race" in st and d.get("offset", 0) + d.get("dlen", 0) >= 9:
            # every copy of the last segment is held back and handed over in the call that detects the next timer expiry
            self.applied.append((idx, "race", wire.short(d), side))
            return [("race", raw)]
        return [("now", raw)]


LATE_CASES = {
    # name: (side that declares, condition, mode, what is held back until the first timer expiry has been served: (emitting side, PDU kinds))
    "src_ack_limit": ("S", "POSITIVE_ACK_LIMIT_REACHED", "ack", ("D", {"ACK_EOF", "FIN"})),
    "src_check_limit": ("S", "CHECK_LIMIT_REACHED", "unack", ("D", {"FIN"})),
    "dst_ack_limit": ("D", "POSITIVE_ACK_LIMIT_REACHED", "ack", ("S", {"ACK_FIN"})),
    "dst_nak_limit": ("D", "NAK_LIMIT_REACHED", "ack", ("D", {"NAK"})),
    "dst_check_limit": ("D", "CHECK_LIMIT_REACHED", "unack", ("S", {"FD@4"})),
}


class LatePlan(Plan):
    """The PDU(s) which would be progress for a timer-driven procedure are held back and delivered right after that procedure's first
    expiry was served (with a limit of 1 that expiry declares the limit fault); everything else flows."""

    def __init__(self, name):
        super().__init__()
        self.name = name
        self.side, self.kinds = LATE_CASES[name][3]
        self.dropped_fd = False

    def on_emit(self, idx, item):
        d, side = item["d"], item["side"]
        k = d.get("kind")
        if self.name == "dst_nak_limit" and side == "S" and k == "FD" and d.get("offset") == 4 and not self.dropped_fd:
            self.dropped_fd = True
            self.applied.append((idx, "drop", wire.short(d), side))
            return []
        tag = "FD@4" if (k == "FD" and d.get("offset") == 4) else k
        if side == self.side and tag in self.kinds and self.runner.expiries == 0:
            self.applied.append((idx, "late", wire.short(d), side))
            return [("late", item["raw"])]
        return [("now", item["raw"])]


def install_spy(w: World):
    ok = True
    for ep in (w.S, w.D):
        h = ep.h
        if not hasattr(h, "_declare_fault"):
            ok = False
            continue
        orig = h._declare_fault

        def spy(cond, _orig=orig, _ep=ep):
            hh = _ep.h
            ev = w.log.add("declare", _ep.side, cond=getattr(cond, "name", cond), tid=tid_key(hh.transaction_id), progress=hh.progress, step=hh.step.name)
            try:
                return _orig(cond)
            finally:
                w.log.add("declare_ret", _ep.side, declare_seq=ev["seq"])

        h._declare_fault = spy
    return ok


def gen_cases(tier, seed):
    cases = []
    for stim, (side, cond, mode, need_closure) in STIMULI.items():
        for code in ("ignore", "cancel", "abandon"):
            modes = [mode] if mode else ["ack", "unack"]
            for m in modes:
                closures = [True] if need_closure else [False, True]
                for closure in closures:
                    for imm in ((True, False) if m == "ack" else (True,)):
                        cases.append({"t": "matrix", "stim": [stim], "table_s": {cond: code} if side == "S" else {}, "table_d": {cond: code} if side == "D" else {},
                                      "mode": m, "closure": closure, "imm": imm, "size": 10, "seed": 1, "decouple": side})
                        if m == "ack" and side == "D":
                            cases.append(dict(cases[-1], md_lost=True))
                        cases.append(dict(cases[-1], override_tlvs=True))
    rng = random.Random(1400 + seed)
    n = 5000 if tier == "quick" else 100000
    names = list(STIMULI)
    for i in range(n):
        stim = rng.sample(names, rng.choice([1, 1, 2, 2, 3]))
        cases.append({"t": "random", "stim": stim, "table_s": {c: rng.choice(["ignore", "cancel", "abandon"]) for c in TABLE_CONDS if rng.random() < 0.7},
                      "table_d": {c: rng.choice(["ignore", "cancel", "abandon"]) for c in TABLE_CONDS if rng.random() < 0.7},
                      "mode": rng.choice(["ack", "unack"]), "closure": rng.random() < 0.5, "imm": rng.random() < 0.5, "size": rng.choice([10, 10, 12, 17]),
                      "seed": seed * 1_000_003 + i, "decouple": rng.choice(["S", "D", None]), "md_lost": rng.random() < 0.2,
                      "mods": [m for m in MODS if rng.random() < 0.08], "override_tlvs": rng.random() < 0.25, "pacing": rng.choice([None, None, {"src_calls": 3}, {"src_calls": 6}, {"dst_calls": 3}, {"src_calls": 2, "dst_calls": 2}, {"dst_idle": 2}, {"src_idle": 2, "dst_calls": 2}])})
    # two consecutive transactions on the same handlers (fault state must not leak into the next transaction's fault handling)
    n2 = 600 if tier == "quick" else 20000
    for i in range(n2):
        cases.append({"t": "sequence", "stim": [], "phases": [rng.sample(names, rng.choice([1, 2])), rng.sample(names, rng.choice([1, 1, 2]))],
                      "table_s": {c: rng.choice(["ignore", "cancel", "abandon"]) for c in TABLE_CONDS if rng.random() < 0.5},
                      "table_d": {c: rng.choice(["ignore", "cancel", "abandon"]) for c in TABLE_CONDS if rng.random() < 0.5},
                      "mode": rng.choice(["ack", "unack"]), "closure": rng.random() < 0.5, "imm": rng.random() < 0.5, "size": rng.choice([10, 12, 17]),
                      "seed": seed * 1_000_003 + 700_000 + i, "decouple": rng.choice(["S", "D", None])})
    # directed: a transaction abandoned by the receiver (every way the bench can provoke, incl. a fault declared in a call which already
    # queued a NAK) is followed by a transaction whose fault is cancelled
    firsts = [[x] for x, v in STIMULI.items() if v[0] == "D"] + [["size_error_fd", "dst_nak_limit"], ["size_error_fd_race", "dst_nak_limit"], ["size_error_eof", "dst_nak_limit"]]
    seconds = [["checksum_ack"], ["checksum_unack"], ["dst_nak_limit"], ["reject_write_perm"], ["cancel_dst"], ["dst_ack_limit"]]
    for i, (first, second) in enumerate(itertools.product(firsts, seconds)):
        for mode, imm in (("ack", True), ("ack", False), ("unack", True)):
            if (mode == "unack") != (STIMULI[second[0]][2] == "unack") and STIMULI[second[0]][2] is not None:
                continue
            if tier == "quick" and (i + imm) % 2:
                continue
            cases.append({"t": "sequence", "stim": [], "phases": [first, second], "table_s": {}, "table_d": {c: "abandon" for c in TABLE_CONDS},
                          "table_d2": {}, "mode": mode, "closure": True, "imm": imm, "size": 10, "seed": 77 + i, "decouple": "D", "md_lost": i % 3 == 0})
    # an ignored limit fault lets the transaction continue: the progress the procedure was waiting for arrives right after the fault was
    # declared (limit 1) and must still complete the transfer
    for name, (side, cond, mode, _) in LATE_CASES.items():
        for code in ("ignore", "cancel", "abandon"):
            # (dst_check_limit without closure: with closure the sender's own check timer expires in the same instant and cancels)
            for closure in ((True,) if name == "src_check_limit" else (False,) if name == "dst_check_limit" else (False, True)):
                cases.append({"t": "late", "late": name, "stim": [], "table_s": {cond: code} if side == "S" else {}, "table_d": {cond: code} if side == "D" else {},
                              "mode": mode, "closure": closure, "imm": False, "size": 10, "seed": 5, "decouple": side, "code": code})
    for code, size in itertools.product(("ignore", "cancel", "abandon"), (0, 10)):
        cases.append({"t": "eager_put", "code": code, "size": size})
    cases.append({"t": "api"})
    return cases


def run_api(case):
    viol, obs = [], {}
    table = {c for c in ConditionCode if c.name in ("CANCEL_REQUEST_RECEIVED", "POSITIVE_ACK_LIMIT_REACHED", "KEEP_ALIVE_LIMIT_REACHED", "INVALID_TRANSMISSION_MODE",
                                                   "FILE_CHECKSUM_FAILURE", "FILE_SIZE_ERROR", "FILESTORE_REJECTION", "NAK_LIMIT_REACHED", "INACTIVITY_DETECTED",
                                                   "CHECK_LIMIT_REACHED", "UNSUPPORTED_CHECKSUM_TYPE")}
    for cond in ConditionCode:
        for code in FaultHandlerCode:
            fh = RecFaultHandler(EventLog(), "X")
            try:
                fh.set_handler(cond, code)
                accepted = True
            except ValueError:
                accepted = False
            except Exception as e:  # noqa: BLE001
                viol.append({"clause": "set-handler-raised-unexpected-error", "cond": cond.name, "etype": type(e).__name__})
                continue
            if accepted != (cond in table):
                viol.append({"clause": "set-handler-accepts-exactly-table-conditions", "cond": cond.name, "code": code.name, "accepted": accepted})
            elif accepted and fh.get_fault_handler(cond) != code:
                viol.append({"clause": "set-handler-did-not-take-effect", "cond": cond.name, "code": code.name, "got": str(fh.get_fault_handler(cond))})
            obs["set_handler_probes"] = obs.get("set_handler_probes", 0) + 1
            if not accepted:
                obs["set_handler_refusals"] = obs.get("set_handler_refusals", 0) + 1
    return {"viol": viol, "obs": obs, "sig": case, "sample": None}


def run_eager_put(case):
    """The sender of an unacknowledged transfer with closure declares Check Limit Reached; the user, told about it inside that call, hands the
    next put request in before it retrieves the PDUs of that call.  The configured outcome is the same as with any other call order:
    with 'cancel' the EOF (cancel) of the first transaction still reaches the link (ahead of the next transaction's PDUs)."""
    from .. import prep

    code = case["code"]
    cfg = {"mode": "unack", "closure": True, "size": case["size"], "seg": 4, "check_ivl_ms": 1000, "fs": "mem", "fh_src": {"CHECK_LIMIT_REACHED": code},
           "opts": case.get("opts")}
    viol, obs = [], {}
    with World(cfg) as w:
        S = w.S
        if not prep.src_to(w, "WAITING_FOR_FINISHED"):
            return {"viol": [{"clause": "harness-could-not-prepare-step", "step": S.h.step.name}], "obs": obs, "sig": None, "sample": None}
        S.outbox.clear()
        tid1 = tid_key(S.h.transaction_id)
        mark = len(w.log.events)
        S.autodrain = False
        vclock.use(w.clock)
        vclock.advance_to_next_expiry()
        try:
            S.sm()
            put_ok = None
            if S.h.state.name == "IDLE":
                w.cfg["seq_start"] = w.cfg["seq_start"] + 1
                put_ok = w.put()
            S.autodrain = True
            S.drain()
            for _ in range(2):
                S.sm()
        except Exception as e:  # noqa: BLE001
            viol.append({"clause": "internal-exception", "etype": type(e).__name__, "msg": str(e)[:150]})
        evs = w.log.events[mark:]
        fh = [(e["which"], e["cond"], e["tid"]) for e in evs if e["kind"] == "fh" and e["side"] == "S"]
        tx = [e["d"] for e in evs if e["kind"] == "tx" and e["side"] == "S"]
        fins = [e for e in evs if e["kind"] == "ind_finished" and e["side"] == "S"]
        first = fh[0] if fh else None
        if first is None or first[:2] != (code, "CHECK_LIMIT_REACHED") or tuple(first[2]) != tuple(tid1) or any(f[0] != code for f in fh):
            viol.append({"clause": "callback-kind-differs-from-table", "want": (code, "CHECK_LIMIT_REACHED"), "got": fh[:4]})
        if code == "cancel":
            own = [d for d in tx if d["h"]["seq"] == tid1[2]]
            if put_ok is not True:
                viol.append({"clause": "put-request-after-cancelling-fault-refused", "returned": put_ok})
            if not tx or tx[0].get("kind") != "EOF" or tx[0].get("cond") != "CHECK_LIMIT_REACHED" or tx[0]["h"]["seq"] != tid1[2] or len(own) != 1:
                viol.append({"clause": "cancel-not-reported-to-peer", "cond": "CHECK_LIMIT_REACHED", "tx": [wire.short(d) for d in tx[:5]], "call_order": "put_request before get_next_packet"})
            if [tuple(f["fin"][:1]) for f in fins if tuple(f["tid"]) == tuple(tid1)] != [("CHECK_LIMIT_REACHED",)]:
                viol.append({"clause": "cancel-not-reported-to-user", "fins": [f["fin"] for f in fins]})
            obs["cancels_followed_by_put_request_before_pdu_retrieval"] = 1
        elif code == "abandon":
            if [d for d in tx if d["h"]["seq"] == tid1[2]] or [f for f in fins if tuple(f["tid"]) == tuple(tid1)]:
                viol.append({"clause": "abandon-not-silent", "tx": [wire.short(d) for d in tx[:5]], "fins": [f["fin"] for f in fins]})
            obs["abandons_followed_by_put_request_before_pdu_retrieval"] = 1
        else:
            if tx or fins or S.h.state.name != "BUSY":
                viol.append({"clause": "ignored-fault-did-not-let-the-transaction-continue", "tx": [wire.short(d) for d in tx[:5]], "state": S.h.state.name})
        for v in viol:
            v["case"] = case
            v["trace"] = trace_summary(w, None, 30)
    return {"viol": viol, "obs": obs, "sig": case, "sample": None}


def run_case(case):
    if case["t"] == "api":
        return run_api(case)
    if case["t"] == "eager_put":
        return run_eager_put(case)
    rng = random.Random(case["seed"])
    phases = case.get("phases") or [case["stim"]]
    stim = set(phases[0])
    all_stim = [x for ph in phases for x in ph]
    cfg = {"mode": case["mode"], "closure": case["closure"], "imm_nak": case["imm"], "size": case["size"], "seg": 4, "ack_limit": 2, "nak_limit": 2, "check_limit": 2,
           "fh_src": case["table_s"], "fh_dst": case["table_d"], "disp": rng.random() < 0.5, "dest": "existing" if "reject_truncate" in all_stim else "file"}
    obs_pre = {}
    if case.get("override_tlvs"):
        # the put request carries fault handler override TLVs which name another handler code than the local table for every condition:
        # the property (and this library, which does not implement overrides) lets the local table decide on both sides
        names = {"ignore": "IGNORE_ERROR", "cancel": "NOTICE_OF_CANCELLATION", "abandon": "ABANDON_TRANSACTION"}
        cfg["opts"] = {"overrides": [[c, names[next(k for k in ("ignore", "abandon", "cancel") if k not in (case["table_s"].get(c, "cancel"), case["table_d"].get(c, "cancel")))]]
                                     for c in TABLE_CONDS if c != "CANCEL_REQUEST_RECEIVED"]}
        obs_pre["runs_with_fault_handler_override_tlvs_in_the_put_request"] = 1
    long_ivl = {"positive_ack_timer_interval_seconds": 5000.0, "nak_timer_interval_seconds": 5000.0}
    if case["decouple"] == "S":
        cfg["rc_at_dst"] = dict(long_ivl)  # the receiver's timers are slow: the sender declares first
    elif case["decouple"] == "D":
        cfg["rc_at_src"] = dict(long_ivl)
    if case["t"] == "late":
        cfg.update({"ack_limit": 1, "nak_limit": 1, "check_limit": 1})
    if case["t"] == "random":
        cfg["scribble_pdus"], cfg["scribble_user"] = case["seed"] % 5 == 0, case["seed"] % 7 == 0
    viol, obs = [], dict(obs_pre)
    with World(cfg) as w:
        if not install_spy(w):
            return {"viol": [], "obs": {"spy_could_not_attach": 1}, "sig": None, "sample": None}
        nwrite = [0]

        def fs_fault(op, args, n):
            if "reject_create" in stim and op == "create_file":
                return PermissionError("injected")
            if "reject_truncate" in stim and op == "truncate_file":
                return PermissionError("injected")
            if op == "write_data" and n == 0 and "reject_write_perm" in stim:
                return PermissionError("injected")
            if op == "write_data" and n == 0 and "reject_write_notfound" in stim:
                return FileNotFoundError("injected")
            return None

        w.dst_fs.fault = fs_fault
        internal = None
        outcome = "done"
        for pi, ph in enumerate(phases):
            stim.clear()
            stim.update(ph)
            w.dst_fs.counts.pop("write_data", None)
            actions = {}
            if "cancel_src" in stim:
                actions.setdefault(rng.choice([2, 3, 5]), []).append(("cancel", "S"))
            if "cancel_dst" in stim:
                actions.setdefault(rng.choice([2, 3, 5]), []).append(("cancel", "D"))
            plan = StimPlan(stim, rng, md_lost=bool(case.get("md_lost")), mods=case.get("mods") or ())
            if case["t"] == "late":
                plan = LatePlan(case["late"])
            if case.get("mods"):
                obs["runs_with_schedule_modifiers"] = 1
            w.log.add("phase", "-", pi=pi)
            if pi > 0 and case.get("table_d2") is not None:
                # the user re-configures the fault handler table between the two transactions
                for cond in TABLE_CONDS:
                    w.D.fh.set_handler(ConditionCode[cond], FHC[case["table_d2"].get(cond, DEFAULTS.get(cond, "cancel"))])
            r = Runner(w, plan=plan, max_expiries=14, max_rounds=800, actions=actions, pacing=case.get("pacing"))
            try:
                w.put()
                out = r.run()
            except InternalError as e:
                out = "internal-error"
                ex = w.log.of("exc")[-1]
                internal = {"side": e.side, "etype": type(e.exc).__name__, "msg": str(e.exc)[:120], "frames": ex["frames"]}
            if out != "done":
                outcome = out
            if pi + 1 < len(phases):
                # the next transaction starts on idle handlers (documented reset for transactions the library leaves waiting forever)
                for ep in (w.S, w.D):
                    if ep.h.state.name != "IDLE":
                        ep.reset()
                        ep.drain()
                    ep.outbox.clear()
                if internal is not None:
                    break
        if case["t"] == "late":
            side = LATE_CASES[case["late"]][0]
            obs["late_progress_cases_" + case["code"]] = 1
            if case["code"] == "ignore":
                fins = [tuple(e["fin"][:2]) for e in w.log.of("ind_finished", side)]
                ep = w.S if side == "S" else w.D
                if outcome != "done" or ep.h.state.name != "IDLE" or ("NO_ERROR", "DATA_COMPLETE") not in fins:
                    viol.append({"clause": "ignored-fault-did-not-let-the-transaction-continue", "side": side, "cond": LATE_CASES[case["late"]][1], "outcome": outcome,
                                 "state": ep.h.state.name, "step": ep.h.step.name, "fins": fins, "case": {k: v for k, v in case.items() if not k.startswith("table")},
                                 "trace": trace_summary(w, r, 50)})
                else:
                    obs["ignored_limit_faults_followed_by_completion"] = 1
        stim = all_stim
        evs = w.log.events
        tables = {"S": dict(DEFAULTS, **case["table_s"]), "D": dict(DEFAULTS, **case["table_d"])}
        judged = 0
        for i, e in enumerate(evs):
            if e["kind"] == "phase" and e["pi"] > 0 and case.get("table_d2") is not None:
                tables["D"] = dict(DEFAULTS, **case["table_d2"])
                obs["fault_table_reconfigured_between_transactions"] = 1
            if e["kind"] != "declare":
                continue
            side, cond = e["side"], e["cond"]
            judged += 1
            configured = tables[side].get(cond, "cancel")
            obs[f"declared_{side}_{cond}_{configured}"] = obs.get(f"declared_{side}_{cond}_{configured}", 0) + 1
            ret_i = next((j for j in range(i + 1, len(evs)) if evs[j]["kind"] == "declare_ret" and evs[j]["declare_seq"] == e["seq"]), len(evs))
            inside = evs[i + 1 : ret_i]
            call_end = next((j for j in range(ret_i, len(evs)) if evs[j]["kind"] in ("ret", "exc") and evs[j]["side"] == side), len(evs))
            rest_of_call = evs[ret_i:call_end + 1]
            after_call = evs[call_end + 1 :]
            cbs = [(x["which"], x["tid"], x["cond"], x["progress"]) for x in inside if x["kind"] == "fh" and x["side"] == side]
            nested = any(x["kind"] == "declare" and x["side"] == side for x in inside)
            # pending cancellation (sender): EOF(cancel) already emitted for this transaction
            pending_cancel = None
            if side == "S":
                for x in evs[:i]:
                    if x["kind"] in ("tx", "enq") and x["side"] == "S" and x.get("raw"):
                        dd = x.get("d") or wire.describe(x["raw"])
                        if dd.get("kind") == "EOF" and dd.get("cond") not in (None, "NO_ERROR") and (dd["h"]["src"], dd["h"]["seq"]) == (e["tid"][0], e["tid"][2]):
                            pending_cancel = dd["cond"]
            want_kind = configured
            want_cond = cond
            if pending_cancel is not None and configured == "cancel":
                want_kind, want_cond = "abandon", pending_cancel
                obs["declared_during_pending_cancellation"] = obs.get("declared_during_pending_cancellation", 0) + 1
            want = [(want_kind, e["tid"], want_cond, e["progress"])]
            where = {"side": side, "cond": cond, "configured": configured, "step": e["step"], "stimuli": stim}
            if e["tid"] is None:
                viol.append(dict(where, clause="fault-declared-without-transaction-id"))
            if not nested and cbs != want:
                viol.append(dict(where, clause="callbacks-differ-from-configured-handler", got=cbs, want=want))
                continue
            ret_ev = evs[call_end] if call_end < len(evs) else None
            state_after = ret_ev["after"][0] if ret_ev is not None and "after" in ret_ev else None
            if ret_ev is not None and ret_ev["kind"] == "exc" and not ret_ev.get("proto"):
                viol.append(dict(where, clause="internal-exception-after-fault-declaration", etype=ret_ev["etype"], frames=ret_ev.get("frames")))
                continue
            tid = e["tid"]

            def mine(x):
                return x.get("tid") == tid

            if want_kind == "abandon":
                if state_after != "IDLE":
                    viol.append(dict(where, clause="not-idle-after-abandon", state=state_after))
                enq = [wire.short(wire.describe(x["raw"])) for x in inside + rest_of_call if x["kind"] == "enq" and x["side"] == side and x["raw"]]
                if enq:
                    viol.append(dict(where, clause="pdu-emitted-for-abandoned-transaction", pdus=enq))
                later_ind = [x["kind"] for x in inside + rest_of_call + after_call if x["side"] == side and x["kind"].startswith("ind_") and mine(x)]
                if later_ind:
                    viol.append(dict(where, clause="indication-for-abandoned-transaction", indications=later_ind[:4]))
                later_tx = []
                for x in after_call:
                    if x["kind"] == "tx" and x["side"] == side and x["raw"] and x["d"].get("h") and (x["d"]["h"]["src"], x["d"]["h"]["seq"]) == (tid[0], tid[2]):
                        if x.get("enq_seq") is not None and x["enq_seq"] < e["seq"]:
                            # computed and queued before the fault was declared (the receiver keeps its queue on reset): not a consequence of the fault
                            obs["pdus_queued_before_abandonment_sent_later_not_judged"] = obs.get("pdus_queued_before_abandonment_sent_later_not_judged", 0) + 1
                            continue
                        later_tx.append(wire.short(x["d"]))
                if later_tx:
                    viol.append(dict(where, clause="pdu-emitted-for-abandoned-transaction", pdus=later_tx[:4], later=True))
                obs["abandons_judged"] = obs.get("abandons_judged", 0) + 1
            elif want_kind == "cancel":
                following = inside + rest_of_call + after_call
                if side == "S":
                    nxt = next((x for x in following if x["kind"] == "enq" and x["side"] == "S" and x["raw"]), None)
                    dd = wire.describe(nxt["raw"]) if nxt is not None else {}
                    if dd.get("kind") != "EOF" or dd.get("cond") != cond:
                        viol.append(dict(where, clause="cancellation-not-reported-to-peer-with-condition", next_pdu=wire.short(dd) if dd else None))
                    fins = [x for x in following if x["kind"] == "ind_finished" and x["side"] == "S" and mine(x)]
                    if not fins:
                        obs["sender_cancel_without_transaction_finished"] = obs.get("sender_cancel_without_transaction_finished", 0) + 1
                else:
                    fins = [x for x in following if x["kind"] == "ind_finished" and x["side"] == "D" and mine(x)]
                    # a cancellation received from the peer may replace the condition; a second local fault may only do so after this
                    # cancellation was reported (a cancelled transaction does not run its procedures any further)
                    first_report = fins[0]["seq"] if fins else float("inf")
                    later_override = any(x["kind"] == "declare" and x["side"] == "D" and x["seq"] > first_report for x in following) or any(
                        x["kind"] == "rx" and x["side"] == "D" and x["d"].get("kind") == "EOF" and x["d"].get("cond") not in (None, "NO_ERROR") for x in following)
                    # the receiver's own user may still issue a Cancel.request before the Finished PDU went out (it waits for PDUs queued earlier in
                    # the call): C12 then requires Cancel Request Received in the Finished PDU and a Transaction-Finished with it
                    if any(x["kind"] == "action" and x["side"] == "D" and x.get("what") == "cancel" and x["res"] is True for x in following):
                        later_override = True
                        obs["user_cancel_request_after_cancelling_fault"] = obs.get("user_cancel_request_after_cancelling_fault", 0) + 1
                    second = next((x for x in following if x["kind"] == "declare" and x["side"] == "D" and x["seq"] < first_report and x["tid"] == tid), None)
                    if second is not None:
                        viol.append(dict(where, clause="further-fault-declared-by-cancelled-transaction", second=second["cond"], step=second["step"]))
                    naks = [wire.short(wire.describe(x["raw"])) for x in following if x["kind"] == "enq" and x["side"] == "D" and x["raw"] and x["seq"] < first_report
                            and wire.kind_of(x["raw"]) == "NAK"]
                    if naks and fins:
                        viol.append(dict(where, clause="nak-emitted-by-cancelled-transaction", naks=naks[:3]))
                    # the run need not end (stimuli may silence the peer for good), but the receiver reports a cancellation within its next calls
                    # (counted up to the bench's reset of a hanging handler / the next transaction)
                    upto = next((j for j, x in enumerate(after_call) if x["kind"] == "phase" or (x["kind"] == "call" and x["side"] == "D" and x.get("api") == "reset")), len(after_call))
                    d_calls_after = sum(1 for x in after_call[:upto] if x["kind"] == "call" and x["side"] == "D" and x.get("api") == "state_machine")
                    settled = outcome == "done" or d_calls_after >= 4
                    if not fins:
                        if settled:
                            viol.append(dict(where, clause="cancellation-not-reported-to-user"))
                    elif fins[0]["fin"][0] != cond and not later_override:
                        viol.append(dict(where, clause="transaction-finished-condition-differs", fin=fins[0]["fin"]))
                    finp = [x["d"] for x in following if x["kind"] == "tx" and x["side"] == "D" and x["d"].get("kind") == "FIN"
                            and (x["d"]["h"]["src"], x["d"]["h"]["seq"]) == (tid[0], tid[2])]
                    need_fin = case["mode"] == "ack" or case["closure"]
                    if need_fin and fins and not finp and settled:
                        viol.append(dict(where, clause="cancellation-not-reported-to-peer"))
                    elif finp and finp[0].get("cond") != cond and not later_override:
                        viol.append(dict(where, clause="finished-pdu-condition-differs", pdu=wire.short(finp[0])))
                obs["cancels_judged"] = obs.get("cancels_judged", 0) + 1
            else:  # ignore
                with_cond = []
                # the table says ignore for this condition: this side never cancels with it (unless the peer reported it)
                from_peer = any(x["kind"] == "rx" and x["side"] == side and x["d"].get("kind") in ("EOF", "FIN") and x["d"].get("cond") == cond for x in evs)
                for x in ([] if from_peer else inside + rest_of_call + after_call):
                    if x["side"] != side:
                        continue
                    if "tid" in x and x["kind"].startswith("ind_") and x["tid"] != tid:
                        continue
                    if x["kind"] == "enq" and x["raw"]:
                        dd = wire.describe(x["raw"])
                        if dd.get("kind") in ("EOF", "FIN") and dd.get("cond") == cond:
                            with_cond.append(wire.short(dd))
                    if x["kind"] == "ind_finished" and x["fin"][0] == cond:
                        with_cond.append("Transaction-Finished(%s)" % cond)
                if with_cond:
                    viol.append(dict(where, clause="ignored-fault-cancelled-the-transaction", evidence=with_cond))
                finished_in_call = any(x["kind"] == "ind_finished" and x["side"] == side for x in inside + rest_of_call)
                completes_without_indication = side == "S" or not w.cfg["ind"][3]
                later_declaration = any(x["kind"] == "declare" and x["side"] == side for x in rest_of_call)
                if state_after == "IDLE" and not finished_in_call and side == "D" and not later_declaration:
                    viol.append(dict(where, clause="ignored-fault-dropped-the-transaction"))
                obs["ignores_judged"] = obs.get("ignores_judged", 0) + 1
        # one fault event = one declaration: the same condition declared twice inside one API call means two callbacks for one event
        call_id = 0
        seen = {}
        for x in evs:
            if x["kind"] == "call":
                call_id += 1
            elif x["kind"] == "declare":
                key = (call_id, x["side"], x["cond"])
                if key in seen:
                    viol.append({"clause": "same-fault-declared-twice-in-one-call", "side": x["side"], "cond": x["cond"], "step": x["step"], "stimuli": stim})
                    break
                seen[key] = True
        # indications which refer to a missing transaction id
        for x in evs:
            if x["kind"].startswith("ind_") and "tid" in x and x["tid"] is None:
                viol.append({"clause": "indication-without-transaction-id", "indication": x["kind"], "side": x["side"], "stimuli": stim})
                break
        if internal is not None and not any(v["clause"] == "internal-exception-after-fault-declaration" for v in viol):
            declared = any(x["kind"] == "declare" for x in evs)
            if declared:
                viol.append({"clause": "internal-exception-in-run-with-fault-declaration", **internal, "stimuli": stim, "tables": [case["table_s"], case["table_d"]]})
            else:
                obs["internal_errors_without_declaration_not_judged_here"] = 1
        # callbacks outside a fault declaration: only the abandonment of a transaction whose cancellation is already being transferred
        # (CFDP 4.11.2.2.3 / 4.11.2.3.2) is issued that way; a Cancel.request is not a fault declaration and fires no callback
        windows = []
        for i, e in enumerate(evs):
            if e["kind"] == "declare":
                ret_seq = next((x["seq"] for x in evs[i + 1 :] if x["kind"] == "declare_ret" and x["declare_seq"] == e["seq"]), float("inf"))
                windows.append((e["side"], e["seq"], ret_seq))
        for i, x in enumerate(evs):
            if x["kind"] != "fh" or any(sd == x["side"] and a < x["seq"] < b for sd, a, b in windows):
                continue
            pending = False
            for y in evs[:i]:
                if y["kind"] == "enq" and y["side"] == x["side"] and y["raw"]:
                    dd = wire.describe(y["raw"])
                    if dd.get("kind") == ("EOF" if x["side"] == "S" else "FIN") and dd.get("cond") not in (None, "NO_ERROR") and x["tid"] is not None \
                            and dd.get("h") and (dd["h"]["src"], dd["h"]["seq"]) == (x["tid"][0], x["tid"][2]):
                        pending = True
            if x["which"] != "abandon" or not pending:
                viol.append({"clause": "fault-callback-without-fault-declaration", "callback": (x["side"], x["which"], x["cond"], x["tid"]), "stimuli": stim,
                             "cancellation_pending": pending})
                break
            obs["abandon_callbacks_during_pending_cancellation"] = obs.get("abandon_callbacks_during_pending_cancellation", 0) + 1
        obs["declarations_judged"] = judged
        obs["outcome_" + outcome] = 1
        for v in viol:
            v["case"] = {k: case[k] for k in ("t", "mode", "closure", "imm", "size", "seed", "decouple", "table_s", "table_d")}
            v["trace"] = trace_summary(w, r, 60)
        sig = case if judged else None
        if len(phases) > 1:
            obs["two_transaction_runs"] = 1
        sample = {"stimuli": stim, "tables": [case["table_s"], case["table_d"]], "trace": trace_summary(w, r, 40)} if judged and case["t"] == "matrix" else None
        return {"viol": viol, "obs": obs, "sig": sig, "sample": sample}


def finalize(ctx):
    inc = []
    if ctx["obs"].get("spy_could_not_attach"):
        inc.append("the declaration spy could not attach (no _declare_fault attribute): fault declarations are not observable")
    # every (side, condition, handler code) of the matrix must have been observed
    need = []
    for stim, (side, cond, mode, _) in STIMULI.items():
        if cond == "CANCEL_REQUEST_RECEIVED":
            continue
        for code in ("ignore", "cancel", "abandon"):
            if not ctx["obs"].get(f"declared_{side}_{cond}_{code}"):
                need.append(f"{side}:{cond}:{code}")
    if need:
        inc.append(f"matrix cells never declared: {sorted(set(need))}")
    return [], inc


REQUIRED = {"ignored_limit_faults_followed_by_completion": 8, "declarations_judged": 100, "abandons_judged": 20, "cancels_judged": 20, "ignores_judged": 20, "set_handler_probes": 40, "set_handler_refusals": 10,
            "cancels_followed_by_put_request_before_pdu_retrieval": 2, "runs_with_fault_handler_override_tlvs_in_the_put_request": 100, "abandons_followed_by_put_request_before_pdu_retrieval": 2}
