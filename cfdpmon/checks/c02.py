"""C02 - every transfer over a fault-free link completes successfully in every mode."""
from __future__ import annotations

import itertools
import random

from .. import models, wire
from ..oracles import C01Monitor, success_end_state, trace_summary
from ..world import InternalError, Runner, World

PROP = "C02"
LEVEL = "exploration"
TECHNIQUE = "runtime monitoring: real source+destination handlers in a byte-level loopback on a fault-free link, end-state oracle (file equality, one successful Transaction-Finished per side, idle, no fault callback, no exception) over a configuration grid"
RULE = (
    "cases = cells of the configuration grid size x segment length x max packet length x mode x closure x "
    "checksum type x PDU CRC x entity-id widths x seq width x NAK mode x destination shape x pacing "
    "(+ metadata-only requests); quick: corner cells + seeded random cells, thorough: complete product of the "
    "core dimensions with the remaining dimensions rotated + random cells.  A case is non-trivial when the transfer "
    "ran to quiescence with at least 2 PDUs delivered; distinct = distinct (configuration, pacing) cells.  Random cells also draw: sequence numbers "
    "which need the provider's full width, a receiver-side configuration which disagrees with the PDUs, a refused put request towards a third entity "
    "during the transfer, slow entities (up to 1.5 s of virtual time before every call, retry intervals far longer than the transfer).  Sequence cases = "
    "2-3 consecutive requests (empty / small / multi-segment / metadata-only) on one handler pair, with refused requests before a valid one, "
    "re-tuned timers and a slow last transfer; an EOF reaching a closed transaction on this perfect link is a violation"
)
ASSUMPTIONS = [
    "link delivers every PDU once and in order as bytes, re-parsed with spacepackets PduFactory (+ documented EOF condition-code shim)",
    "virtual clock replaces spacepackets.countdown.time_ms; the entity shell drains get_next_packet after every call",
    "max_packet_len >= size of an EOF PDU for the chosen id widths (smaller values cannot satisfy any implementation)",
]

PACINGS = {
    "alt": {},
    "src_burst3": {"src_calls": 3},
    "dst_burst3": {"dst_calls": 3},
    "dst_idle2": {"dst_idle": 2},
    "src_idle2": {"src_idle": 2, "dst_calls": 2},
}
IDW = [(1, 1), (2, 2), (4, 4), (1, 2), (2, 1), (4, 1), (1, 4), (8, 8), (1, 8), (8, 2)]
SEQW = [8, 16, 32]
SEGS = [1, 2, 5, 64, None]
CKSS = ["null", "modular", "crc32", "crc32c"]
DESTS = ["file", "dir", "existing", "dir_existing"]


def sizes_for(seg_eff: int) -> list[int]:
    s = seg_eff
    return sorted({0, 1, max(s - 1, 0), s, s + 1, 2 * s, 2 * s + max(1, s // 2)})


def min_maxpkt(idw: int, seqw: int, crc: bool) -> int:
    return models.eof_len(idw, seqw // 8, crc)


def mk(seg, size_i, mp_kind, mode, closure, cks, crc, idw, seqw, imm, dest, pacing, content, md_only=False):
    w = max(idw)
    mn = min_maxpkt(w, seqw, crc)
    maxpkt = {"min": mn, "mid": max(64, mn), "big": 4096}[mp_kind]
    derived = models.max_fd_payload(maxpkt, w, seqw // 8, crc)
    seg_eff = derived if seg is None else min(seg, derived)
    if seg is None and mp_kind == "big":
        seg_eff = 200  # keep files small: the configured segment length caps the derived one
        seg = 200
    sizes = sizes_for(seg_eff)
    size = sizes[size_i % len(sizes)]
    return {
        "cfg": {
            "mode": mode, "closure": closure, "seg": seg, "maxpkt": maxpkt, "crc": crc, "cks": cks,
            "imm_nak": imm, "src_idw": idw[0], "dst_idw": idw[1], "seqw": seqw, "size": size,
            "content": content, "dest": dest, "metadata_only": md_only,
        },
        "pacing": pacing,
        "seg_eff": seg_eff,
    }


def gen_cases(tier, seed):
    rng = random.Random(1000 + seed)
    cases = []
    core = itertools.product(SEGS, range(7), ["min", "mid", "big"], ["ack", "unack"], [False, True], CKSS, [False, True], DESTS)
    pac_names = list(PACINGS)
    if tier == "thorough":
        rotations = 4
        for rot in range(rotations):
            for i, (seg, si, mp, mode, closure, cks, crc, dest) in enumerate(
                itertools.product(SEGS, range(7), ["min", "mid", "big"], ["ack", "unack"], [False, True], CKSS, [False, True], DESTS)
            ):
                j = i + rot * 7919 + seed
                cases.append(mk(seg, si, mp, mode, closure, cks, crc, IDW[j % len(IDW)], SEQW[(j // 7) % 3], bool((j // 21) % 2), dest,
                                pac_names[(j // 42) % len(pac_names)], content=j % 5))
        nrand = 20000
    else:
        # corner cells: every value of every dimension at least once against a base cell, plus pairwise rotation
        for i, (seg, si, mp, mode, closure, cks, crc, dest) in enumerate(core):
            if i % 23 != (seed % 23):
                continue
            j = i + seed
            cases.append(mk(seg, si, mp, mode, closure, cks, crc, IDW[j % len(IDW)], SEQW[(j // 7) % 3], bool((j // 21) % 2), dest,
                            pac_names[(j // 42) % len(pac_names)], content=j % 5))
        nrand = 2500
    for _ in range(nrand):
        cases.append(
            mk(rng.choice(SEGS + [3, 7, 16]), rng.randrange(7), rng.choice(["min", "mid", "big"]), rng.choice(["ack", "unack"]),
               rng.random() < 0.5, rng.choice(CKSS), rng.random() < 0.5, rng.choice(IDW), rng.choice(SEQW), rng.random() < 0.5,
               rng.choice(DESTS), rng.choice(pac_names), content=rng.choice([0, 1, 2, "zeros", "ones", "ramp"]),
               md_only=rng.random() < 0.04)
        )
        if cases[-1]["cfg"]["mode"] == "ack" and rng.random() < 0.4:
            # slow entities: up to 1.5 s of (virtual) time pass before every round while the retry timers are configured far longer than the
            # whole transfer takes (and the user's check-timer provider, which has no business in acknowledged mode, hands out 0.5 s)
            cases[-1]["cfg"].update({"ack_ivl": 100000.0, "nak_ivl": 100000.0, "check_ivl_ms": 500})
            cases[-1]["drift"] = [rng.randrange(1 << 30), 1500]
        if rng.random() < 0.04 and not cases[-1]["cfg"]["metadata_only"]:
            # path names of exactly 255 bytes (the longest an LV field of the Metadata PDU can carry) or one less: an existing file like any other
            c = cases[-1]["cfg"]
            total = rng.choice([255, 255, 254])
            c.update({"fs": "mem", "dest": "file", "src_name": "s" * (total - 41), "dst_name": "d" * (total - 41)})
            cases[-1]["name_len"] = total
        if rng.random() < 0.08 and "name_len" not in cases[-1]:
            cases[-1]["cfg"].update({"src_name": "übergröße 文件.bin", "dst_name": "зона 51 ☃.dat"})  # names with non-ASCII characters and blanks
        if rng.random() < 0.15:
            cases[-1]["busy_put"] = rng.randrange(0, 6)
        if rng.random() < 0.15:
            # the optional parts of a put request (filestore requests, fault handler overrides, a flow label - also an empty one); none of
            # them is something the receiver of this library acts on, all of them travel in the Metadata PDU
            cases[-1]["cfg"]["opts"] = rng.choice([{"flow_label": "0a0b"}, {"flow_label": ""}, {"fs_requests": 2}, {"overrides": 3},
                                                   {"fs_requests": 1, "overrides": 1, "flow_label": "ff"}])
        if rng.random() < 0.25:
            # the receiver's own configuration for this sender disagrees with what the PDUs say (checksum type, PDU CRC, closure, mode,
            # segment length): the Metadata PDU and the PDU headers decide, not the receiver's defaults
            c = cases[-1]["cfg"]
            c["rc_at_dst"] = {"crc_type": rng.choice([k for k in CKSS if k != c["cks"]]), "crc_on_transmission": not c["crc"],
                              "closure_requested": not c["closure"], "default_transmission_mode": "unack" if c["mode"] == "ack" else "ack",
                              "max_file_segment_len": rng.choice([1, 3, 1000])}
        if rng.random() < 0.3:
            # a transaction sequence number which needs every byte of the provider's width
            sw = cases[-1]["cfg"]["seqw"]
            cases[-1]["cfg"]["seq_start"] = rng.choice([(1 << (sw - 8)) + 3, (1 << sw) - 2]) if sw > 8 else 200
    # consecutive put requests on one handler pair (every request must run to completion, whatever ran before)
    nseq = 400 if tier == "quick" else 6000
    for _ in range(nseq):
        first = mk(rng.choice([2, 5, None]), rng.randrange(7), rng.choice(["min", "mid"]), rng.choice(["ack", "unack"]), rng.random() < 0.5,
                   rng.choice(CKSS), rng.random() < 0.5, rng.choice(IDW), rng.choice(SEQW), rng.random() < 0.5, rng.choice(DESTS), "alt",
                   content=rng.randrange(4))
        first["seq"] = [rng.choice(["empty", "small", "multi", "md_only"]) for _ in range(rng.choice([2, 2, 3]))]
        first["refused_first"] = rng.choice([0, 0, 1, 2, 3, 4])
        if rng.random() < 0.5:
            first["retune"] = rng.randrange(1, 1 << 30)
        first["seq_pacing"] = rng.choice(list(PACINGS))
        if rng.random() < 0.35:
            first["given_up"], first["given_up_at"] = rng.randrange(0, 3), rng.choice(["EOF", "EOF", "FD", "MD"])
        cases.append(first)
    return cases


def stray_eofs(w, since):
    """On a link which loses and duplicates nothing no EOF PDU can reach a receiver which has already closed that transaction (the entity
    shell would have to answer it): such an EOF was emitted for a transaction that should not have one (or twice)."""
    strays = [wire.short(e["d"]) for e in w.log.events if e["seq"] >= since and e["kind"] == "tx_shell" and e["side"] == "D" and e["d"].get("kind") == "ACK_EOF"]
    return [{"clause": "eof-pdu-for-a-transaction-the-receiver-had-closed-on-a-perfect-link", "shell_answers": strays[:3]}] if strays else []


def run_sequence(case):
    """several put requests, one after the other, on the same pair of handlers"""
    cfg = dict(case["cfg"], metadata_only=False)
    viol, obs = [], {}
    with World(cfg) as w:
        mon = C01Monitor(w)
        seg = max(1, case["seg_eff"])
        for i, kind in enumerate(case["seq"]):
            size = {"empty": 0, "small": max(1, seg - 1), "multi": 2 * seg + 1, "md_only": 0}[kind]
            w.cfg["metadata_only"] = kind == "md_only"
            w.cfg["size"] = size
            w.data = b"" if kind == "md_only" else bytes((7 * i + j) & 0xFF for j in range(size))
            if kind != "md_only":
                w.write_raw("src", w.src_path, w.data)
            if case.get("given_up") is not None and i == case["given_up"] % len(case["seq"]) and kind != "md_only":
                # before this request the user starts the same transfer and gives it up in the middle (reset() on both handlers, with PDUs of
                # the last call not yet retrieved): the request which follows must run to completion like any other
                from ..world import give_up_undrained

                if give_up_undrained(w, stop_kind=case.get("given_up_at", "EOF")):
                    obs["requests_after_a_transfer_given_up_with_reset"] = obs.get("requests_after_a_transfer_given_up_with_reset", 0) + 1
            mark = w.log.seq
            drift = None
            if case.get("retune") and cfg["mode"] == "ack":
                # the user re-tunes the timers of this destination between the transfers: short intervals first (nothing is slow then), very
                # long ones for the last transfer, during which the entities are slow (up to 1.5 s before every call)
                last = i == len(case["seq"]) - 1
                for rc in (w.rc_dst_at_src, w.rc_src_at_dst):
                    rc.positive_ack_timer_interval_seconds = 100000.0 if last else 0.2
                    rc.nak_timer_interval_seconds = 100000.0 if last else 0.3
                if last:
                    drift = (case["retune"], 1500)
                    obs["slow_transfer_after_timers_were_retuned"] = 1
            r = Runner(w, max_rounds=4 * 3 + 40, max_expiries=8, drift_ms=drift, pacing=PACINGS[case.get("seq_pacing", "alt")])
            try:
                if case.get("refused_first") and i == case["refused_first"] % len(case["seq"]):
                    # a request which is refused with the documented error comes first; the valid one must run to completion all the same
                    from spacepackets.util import ByteFieldGenerator

                    from cfdppy.request import PutRequest

                    bad = (PutRequest(ByteFieldGenerator.from_int(2, 99), w.src_path, w.dst_req_path, None, None) if case["refused_first"] % 2
                           else PutRequest(w.dst_id, w.root / "srcdir" / "no-such-file.bin", w.dst_req_path, None, None))
                    try:
                        w.S.put(bad)
                    except Exception:  # noqa: BLE001  (which error is raised is C19's subject)
                        obs["refused_requests_before_a_valid_one"] = obs.get("refused_requests_before_a_valid_one", 0) + 1
                ok = w.put()
                if not ok:
                    viol.append({"clause": "put-request-refused", "transfer": i, "kind": kind})
                    break
                outcome = r.run()
            except InternalError as e:
                viol.append({"clause": "api-call-raised", "transfer": i, "kind": kind, "side": e.side, "etype": type(e.exc).__name__, "msg": str(e.exc)[:200]})
                break
            except Exception as e:  # noqa: BLE001
                viol.append({"clause": "api-call-raised", "transfer": i, "kind": kind, "side": "S", "etype": type(e).__name__, "msg": str(e)[:200]})
                break
            v = success_end_state(w, r, outcome, since=mark)
            if r.proto_exc:
                v.append({"clause": "api-call-raised-protocol-exception", "exc": r.proto_exc[:5]})
            v += stray_eofs(w, mark)
            for x in v:
                x["transfer"] = i
                x["kind"] = kind
                x["sequence"] = case["seq"]
                x["trace"] = trace_summary(w, r, 60)[-40:]
            viol += v
            if v:
                break
            obs["consecutive_transfers"] = obs.get("consecutive_transfers", 0) + 1
            if i > 0:
                obs["transfers_on_reused_handlers"] = obs.get("transfers_on_reused_handlers", 0) + 1
        viol += mon.viol
        obs["sequence_cases"] = 1
        sig = {"cfg": {k: v for k, v in case["cfg"].items() if k != "content"}, "seq": case["seq"]}
    return {"viol": viol, "sig": sig, "obs": obs, "sample": {"sequence": case["seq"]} if len(case["seq"]) > 2 else None}


def run_case(case):
    if "seq" in case:
        return run_sequence(case)
    cfg = case["cfg"]
    viol = []
    obs = {}
    with World(cfg) as w:
        mon = C01Monitor(w)
        nseg = -(-cfg["size"] // max(1, case["seg_eff"]))
        acts = {}
        if case.get("busy_put") is not None:
            # while the transfer runs the user asks for another one towards a different peer: refused (busy), no effect on the running one
            acts = {case["busy_put"]: [("put_third",)]}
        r = Runner(w, pacing=PACINGS[case["pacing"]], max_rounds=4 * nseg + 40, max_expiries=8, actions=acts, drift_ms=tuple(case["drift"]) if case.get("drift") else None)
        try:
            ok = w.put()
            if not ok:
                viol.append({"clause": "put-request-refused"})
            outcome = r.run()
        except InternalError as e:
            outcome = "exception"
            viol.append({"clause": "api-call-raised", "side": e.side, "etype": type(e.exc).__name__, "msg": str(e.exc)[:200]})
        except Exception as e:  # noqa: BLE001  put_request raising
            outcome = "exception"
            viol.append({"clause": "api-call-raised", "side": "S", "etype": type(e).__name__, "msg": str(e)[:200]})
        if outcome != "exception":
            viol += success_end_state(w, r, outcome)
            if r.proto_exc:
                viol.append({"clause": "api-call-raised-protocol-exception", "exc": r.proto_exc[:5]})
            viol += stray_eofs(w, 0)
        viol += mon.viol
        # the FD PDUs seen by the receiver tile the file with the effective segment length
        obs["cases_" + cfg["mode"] + ("_closure" if cfg["closure"] else "")] = 1
        obs["pdus_delivered"] = r.delivered
        obs["refused_put_requests_during_transfer"] = r.refused_puts
        if case.get("name_len"):
            if len(w.src_path.as_posix()) == case["name_len"] == len(w.dst_req_path.as_posix()):
                obs["transfers_with_longest_possible_file_names"] = 1
            else:
                viol.append({"clause": "harness-name-length-not-as-planned", "src": len(w.src_path.as_posix()), "dst": len(w.dst_req_path.as_posix())})
        obs["transfers_with_time_passing_between_calls"] = int(r.drifted_ms > 0)
        obs["clock_advances_needed"] = r.expiries
        obs["success_reports_checked"] = mon.success_reports
        obs["metadata_only"] = int(cfg["metadata_only"])
        obs["empty_file"] = int(cfg["size"] == 0 and not cfg["metadata_only"])
        obs["dest_" + cfg["dest"]] = 1
        obs["cks_" + cfg["cks"]] = 1
        obs["pdu_crc"] = int(cfg["crc"])
        obs["mixed_id_width"] = int(cfg["src_idw"] != cfg["dst_idw"])
        keys = {"step_pairs": [f"{a}|{b}" for a, b in r.steps_seen], "pacing": [case["pacing"]]}
        sig = None
        if r.delivered >= 2:
            sig = {k: v for k, v in cfg.items() if k != "content"}
            sig["pacing"] = case["pacing"]
        sample = None
        if viol or (cfg["size"] > 0 and cfg["mode"] == "ack"):
            sample = {"outcome": outcome, "trace": trace_summary(w, r, 40)}
        for v in viol:
            v["trace"] = trace_summary(w, r, 50)
    return {"viol": viol, "sig": sig, "obs": obs, "keys": keys, "sample": sample}


REQUIRED = {"success_reports_checked": 100, "pdus_delivered": 1000, "transfers_on_reused_handlers": 100, "dest_dir_existing": 20, "refused_requests_before_a_valid_one": 50, "refused_put_requests_during_transfer": 50, "transfers_with_time_passing_between_calls": 200, "transfers_with_longest_possible_file_names": 30, "slow_transfer_after_timers_were_retuned": 30,
            "requests_after_a_transfer_given_up_with_reset": 40}
