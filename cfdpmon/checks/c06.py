"""C06 - NAKs request exactly what is missing."""
from __future__ import annotations

import itertools
import random

from .. import models, pdugen, vclock, wire
from ..models import IntervalSet
from ..world import PROTO_EXC, World

PROP = "C06"
LEVEL = "exploration"
TECHNIQUE = "runtime monitoring of the real DestHandler in acknowledged mode with the harness playing the sender: an interval-set model is fed from the shared event order of the recording filestore (write_data ranges), the recording outbound queue (NAK PDUs at enqueue time), the indications and the delivered PDUs; every NAK request is judged against what was known and stored at the moment it was enqueued, every deferred NAK sequence against the exact set of missing bytes, its scope and its encoded length"
RULE = (
    "a case = (configuration: file of n grid segments (+ optional short tail), segment length, max_packet_len from 'one request per NAK PDU' upward, "
    "immediate/deferred NAK mode, PDU CRC, id width; arrival script).  Enumerated scripts: every order of {Metadata, FD_1..FD_n, EOF} x every choice of "
    "lost/delivered/duplicated per PDU (n<=2 quick, n<=3 thorough), NAKs answered completely; random scripts: up to 40 segments, losses, duplicates, swaps, "
    "NAKs answered fully / partially / twice / late / not at all across NAK timer expiries, lost EOFs re-sent.  Non-trivial = at least one NAK PDU was judged; "
    "distinct = distinct cases"
)
ASSUMPTIONS = [
    "'stored when the request was computed' = union of the write_data calls logged before the NAK's enqueue event (shared sequence counter)",
    "'extent known so far' = max(EOF size once an EOF was accepted, Metadata size once accepted, highest end offset of a File Data PDU handed to the handler)",
    "the deferred sequence = the NAK PDUs enqueued in a call in which the public flag deferred_lost_segment_procedure_active turned true or nak_activity_counter increased; a call that also carried a File Data PDU while Metadata is missing is ambiguous and only judged per request",
    "not judged (the statement is silent): the length of the immediate re-request [(0,0),(0,progress)] answering file data while Metadata is missing (counted as immediate_md_nak_overlength)",
    "the harness only sends segments of the grid (retransmissions tile a request from its start), as in the property's quantifier",
]


def nak_capacity(maxpkt, idw, crc, large=False):
    w = 16 if large else 8
    return (maxpkt - models.header_len(idw, 2) - 1 - w - (2 if crc else 0)) // w


def gen_cases(tier, seed):
    cases = []
    nmax = 2 if tier == "quick" else 3
    for n in range(0, nmax + 1):
        items = ["MD"] + [f"FD{i}" for i in range(n)] + ["EOF"]
        for perm in itertools.permutations(items):
            for fate in itertools.product("LDU", repeat=len(items)):  # Lost / Delivered / dUplicated
                script = []
                for it in perm:
                    f = fate[items.index(it)]
                    if f == "L":
                        continue
                    script.append(it)
                    if f == "U":
                        script.append(it)
                for imm in (True, False):
                    for cap in ((1, 13) if tier == "quick" else (1, 2, 13)):
                        cases.append({"t": "enum", "n": n, "seg": 4, "tail": 0, "imm": imm, "cap": cap, "crc": False, "idw": 2, "script": script, "policy": "full", "seed": 0})
    rng = random.Random(606 + seed)
    nrand = 2500 if tier == "quick" else 80000
    for i in range(nrand):
        seg = rng.choice([1, 3, 4, 8])
        n = rng.choice([0, 1, 2, 3, 5, 9, 17, 40])
        tail = rng.choice([0, 0, 1, seg - 1]) if seg > 1 else 0
        items = ["MD"] + [f"FD{j}" for j in range(n + (1 if tail else 0))] + ["EOF"]
        script = []
        for it in items:
            r = rng.random()
            if r < 0.25:
                continue
            script.append(it)
            if r > 0.9:
                script.append(it)
        for _ in range(rng.randrange(6)):
            if len(script) >= 2:
                a = rng.randrange(len(script))
                b = min(len(script) - 1, a + rng.randrange(1, 5))
                script[a], script[b] = script[b], script[a]
        cases.append({"t": "rand", "n": n, "seg": seg, "tail": tail, "imm": rng.random() < 0.5, "cap": rng.choice([1, 1, 2, 3, 5, 13]), "crc": rng.random() < 0.3,
                      "idw": rng.choice([1, 2, 4]), "script": script, "policy": rng.choice(["full", "full", "partial", "twice", "late", "mixed", "none"]), "warmup": rng.random() < 0.3,
                      "seed": seed * 1_000_003 + i, "large": i % 5 == 3})
    return cases


def run_case(case):
    rng = random.Random(case["seed"])
    seg, n, tail = case["seg"], case["n"], case["tail"]
    size = n * seg + tail
    idw, crc = case["idw"], case["crc"]
    large = bool(case.get("large"))  # the sender marks its PDUs with the large file flag: offsets and sizes are 64 bit wide
    maxpkt = models.nak_len(idw, 2, crc, case["cap"], large) + (rng.randrange(0, 8) if case["t"] == "rand" else 0)
    cap = nak_capacity(maxpkt, idw, crc, large)
    cfg = {"mode": "ack", "size": size, "seg": seg, "maxpkt": maxpkt, "imm_nak": case["imm"], "crc": crc, "src_idw": idw, "dst_idw": idw,
           "nak_limit": 4, "ack_limit": 3, "content": size % 5}
    viol, obs = [], {}
    with World(cfg) as w:
        D = w.D
        data = w.data
        tc = pdugen.conf(1, 2, 0, idw=idw, seqw=2, mode="ack", crc=crc, large=large)
        if large:
            obs["runs_with_large_file_flag"] = 1
        md = pdugen.raw("MD", tc, {"size": size, "cks": "crc32", "src_name": w.src_path.as_posix(), "dst_name": w.dst_req_path.as_posix()})
        eof = pdugen.raw("EOF", tc, {"size": size, "cksum": models.checksum("crc32", data)})

        def fd_raw(off, ln):
            return pdugen.raw("FD", tc, {"offset": off, "data": data[off : off + ln]})

        def item_raw(it):
            if it == "MD":
                return md
            if it == "EOF":
                return eof
            j = int(it[2:])
            return fd_raw(j * seg, min(seg, size - j * seg))

        if case.get("warmup"):
            # an earlier acknowledged transaction of the same remote entity on this receiver, with another PDU overhead (CRC flag, sequence
            # number width) and a larger max_packet_len in the MIB; it runs through the deferred procedure and completes.  Not judged.
            w.rc_src_at_dst.max_packet_len = 200
            tcw = pdugen.conf(1, 2, 77, idw=idw, seqw=1, mode="ack", crc=not crc)
            wd = bytes(range(12))
            for rawp in (pdugen.raw("MD", tcw, {"size": 12, "cks": "crc32", "src_name": w.src_path.as_posix(), "dst_name": w.dst_req_path.as_posix()}),
                         pdugen.raw("FD", tcw, {"offset": 0, "data": wd[0:4]}), pdugen.raw("EOF", tcw, {"size": 12, "cksum": models.checksum("crc32", wd)}), None,
                         pdugen.raw("FD", tcw, {"offset": 4, "data": wd[4:8]}), pdugen.raw("FD", tcw, {"offset": 8, "data": wd[8:12]}), None, None,
                         pdugen.raw("ACK_FIN", tcw), None):
                try:
                    D.sm(None if rawp is None else wire.parse(rawp), None if rawp is None else {"kind": wire.kind_of(rawp)})
                except PROTO_EXC:
                    pass
                D.outbox.clear()
            if D.h.state.name != "IDLE":
                D.reset()
                D.drain()
                D.outbox.clear()
            w.rc_src_at_dst.max_packet_len = maxpkt  # the user re-tunes the MIB entry before the next transaction
            obs["runs_after_warmup_transaction"] = 1
        pending = [item_raw(it) for it in case["script"]]
        eof_in_script = "EOF" in case["script"]
        # ---- monitor state ----------------------------------------------------------------------
        writes: list[tuple[int, int, int]] = []  # (seq, a, b)
        md_seq = None
        eof_seq = None
        max_end = 0
        complete_seq = None
        naks_judged = 0
        eof_resends = 0
        steps = 0
        finished = None
        just_delivered_eof = False
        was_busy = False
        BUDGET = 1500
        while steps < BUDGET:
            steps += 1
            raw = None
            tick = False
            if was_busy and D.h.state.name == "IDLE":
                # the transaction is closed: the surrounding entity does not hand late PDUs of a closed transaction to the idle handler
                obs["late_pdus_for_closed_transaction_dropped"] = len([x for x in pending if x != "tick"])
                break
            if pending and not just_delivered_eof:
                raw = pending.pop(0)
                if raw == "tick":
                    raw, tick = None, True
            elif not pending:
                if D.h.state.name == "IDLE" and steps > 1:
                    break
                if not just_delivered_eof:
                    tick = True
                    if eof_seq is None and eof_resends < 3 and (not eof_in_script or steps > len(case["script"]) + 2):
                        pending.append(eof)
                        eof_resends += 1
            just_delivered_eof = False
            if tick:
                vclock.advance_to_next_expiry()
            kind = None if raw is None else wire.kind_of(raw)
            before = (D.h.deferred_lost_segment_procedure_active, D.h.nak_activity_counter, D.h.step.name)
            mark = len(w.log.events)
            proto = None
            try:
                if raw is None:
                    D.sm()
                else:
                    D.sm(wire.parse(raw), {"kind": kind})
            except PROTO_EXC as e:
                proto = type(e).__name__
            except Exception as e:  # noqa: BLE001
                viol.append({"clause": "state-machine-raised-internal-error", "etype": type(e).__name__, "msg": str(e)[:150], "pdu": kind, "step": before[2]})
                break
            after = (D.h.deferred_lost_segment_procedure_active, D.h.nak_activity_counter, D.h.step.name)
            # structural invariant of the live lost-segment bookkeeping at the quiescent point after every call (C18's invariant, observed in situ)
            try:
                segs = list(D.h._params.acked_params.lost_seg_tracker.lost_segments.items())
            except AttributeError:
                segs = None
                obs["tracker_not_observable"] = 1
            if segs is not None:
                obs["tracker_states_checked"] = obs.get("tracker_states_checked", 0) + 1
                bad = [(a, b) for a, b in segs if not (0 <= a < b)] or [x for x, y in zip(segs, segs[1:]) if not (x[0] < y[0] and x[1] <= y[0])]
                if bad:
                    viol.append({"clause": "lost-segment-bookkeeping-not-ascending-disjoint-nonempty", "ranges": segs[:8], "after": kind, "step": after[2]})
                    break
            was_busy = was_busy or D.h.state.name == "BUSY" or before[2] != "IDLE"
            evs = w.log.events[mark:]
            fdd = wire.describe(raw) if kind == "FD" else None
            if fdd is not None and proto is None:
                max_end = max(max_end, fdd["offset"] + fdd["dlen"])
            if kind == "EOF":
                just_delivered_eof = True  # the call which starts the deferred procedure carries no PDU (keeps the sequence unambiguous)
            call_start_seq = evs[0]["seq"] if evs else None
            nak_events = []
            for e in evs:
                k = e["kind"]
                if k == "fs" and e["side"] == "D" and e["op"] == "write_data" and e["outcome"] == "ok":
                    off = e["offset"] or 0
                    writes.append((e["seq"], off, off + e["length"]))
                elif k == "ind_metadata_recv" and md_seq is None:
                    md_seq = e["seq"]
                elif k == "ind_eof_recv" and eof_seq is None:
                    eof_seq = e["seq"]
                elif k == "ind_finished":
                    was_busy = True
                    if finished is None:
                        finished = e["fin"]
                elif k == "enq" and e["side"] == "D" and e["raw"] is not None and wire.kind_of(e["raw"]) == "NAK":
                    nak_events.append(e)
            # completeness point: everything of [0, size) stored, Metadata and EOF known
            if complete_seq is None and md_seq is not None and eof_seq is not None:
                st = IntervalSet([(a, b) for _, a, b in writes])
                if st.contains(0, size):
                    complete_seq = max([md_seq, eof_seq] + [s for s, _, _ in writes]) if writes else max(md_seq, eof_seq)
                    obs["runs_reaching_nothing_missing"] = 1
            # what is judged is the NAK PDU as it is retrieved (= sent); the enqueue event only provides the moment it was computed
            sent = {t["enq_seq"]: t for t in evs if t["kind"] == "tx" and t["side"] == "D"}
            for e in nak_events:
                t = sent.get(e["seq"])
                if t is None or t["raw"] is None:
                    viol.append({"clause": "nak-pdu-not-retrievable-or-not-packable", "error": None if t is None else t.get("pack_error")})
                    e["sent_raw"] = e["raw"]
                else:
                    e["sent_raw"] = t["raw"]
                    if t.get("mutated_after_enqueue"):
                        obs["nak_changed_between_enqueue_and_retrieval"] = obs.get("nak_changed_between_enqueue_and_retrieval", 0) + 1
            # ---- judge every NAK --------------------------------------------------------------------
            fd_ind_seq = next((x["seq"] for x in evs if x["kind"] == "ind_file_segment_recv"), None)
            fd_written = fdd is not None and any(x["kind"] == "fs" and x.get("op") == "write_data" and x.get("outcome") == "ok" for x in evs)
            for e in nak_events:
                d = wire.describe(e["sent_raw"])
                if "error" in d or "reqs" not in d:
                    viol.append({"clause": "nak-pdu-not-parsable", "error": d.get("error")})
                    continue
                naks_judged += 1
                stored = IntervalSet([(a, b) for s, a, b in writes if s < e["seq"]])
                md_known = md_seq is not None and md_seq < e["seq"]
                eof_known = eof_seq is not None and eof_seq < e["seq"]
                # an EOF accepted in this very call is known to the handler even if its indication comes later in the call
                eof_size_known = size if (eof_known or (kind == "EOF" and proto is None)) else None
                extent = max([x for x in (eof_size_known, size if md_known else None, max_end) if x is not None] or [0])
                s0, s1 = d["scope"]
                for a, b in d["reqs"]:
                    if (a, b) == (0, 0):
                        if md_known:
                            viol.append({"clause": "metadata-requested-although-metadata-known", "nak": wire.short(d)})
                        else:
                            obs["metadata_requests_judged"] = obs.get("metadata_requests_judged", 0) + 1
                        continue
                    obs["segment_requests_judged"] = obs.get("segment_requests_judged", 0) + 1
                    if not (0 <= a < b <= extent):
                        viol.append({"clause": "request-outside-known-extent", "req": (a, b), "extent": extent, "nak": wire.short(d)})
                    if stored.intersects(a, b):
                        viol.append({"clause": "request-covers-bytes-already-stored", "req": (a, b), "stored": stored.r, "nak": wire.short(d)})
                    elif (fd_ind_seq is not None and fd_ind_seq < e["seq"] and fd_written and a < fdd["offset"] + fdd["dlen"] and fdd["offset"] < b):
                        # computed after the reception of this very File Data PDU was indicated, and the PDU was stored in the same call
                        viol.append({"clause": "request-covers-file-data-pdu-being-stored", "req": (a, b), "fd": (fdd["offset"], fdd["offset"] + fdd["dlen"]), "nak": wire.short(d)})
                    if not (s0 <= a and b <= s1):
                        viol.append({"clause": "scope-does-not-enclose-request", "req": (a, b), "scope": (s0, s1)})
                if complete_seq is not None and e["seq"] > complete_seq:
                    viol.append({"clause": "nak-sent-although-nothing-is-missing", "nak": wire.short(d)})
            # ---- deferred sequence --------------------------------------------------------------------
            started = after[0] and not before[0]
            reissued = after[1] > before[1]
            if (started or reissued) and nak_events:
                ambiguous = kind == "FD" and before[2] == "WAITING_FOR_METADATA"
                if ambiguous:
                    obs["ambiguous_sequences_not_judged"] = obs.get("ambiguous_sequences_not_judged", 0) + 1
                else:
                    first = nak_events[0]["seq"]
                    stored = IntervalSet([(a, b) for s, a, b in writes if s < first])
                    md_known = md_seq is not None and md_seq < first
                    missing = stored.complement(0, size)
                    ds = [wire.describe(e["sent_raw"]) for e in nak_events]
                    unparsable = [d for d in ds if "error" in d or "reqs" not in d]
                    ds = [d for d in ds if d not in unparsable]
                    req = IntervalSet()
                    overlap = False
                    for d in ds:
                        for a, b in d.get("reqs", []):
                            if (a, b) != (0, 0):
                                if req.intersects(a, b):
                                    overlap = True
                                req.add(a, b)
                    if unparsable:
                        pass  # already reported as nak-pdu-not-parsable
                    elif req != missing or overlap:
                        viol.append({"clause": "deferred-sequence-differs-from-missing-set", "requested": req.r, "missing": missing.r, "overlapping_requests": overlap,
                                     "naks": [wire.short(d) for d in ds], "kind": "first" if started else "re-issue"})
                    has_md_req = any((0, 0) in [tuple(r) for r in d.get("reqs", [])] for d in ds)
                    if has_md_req != (not md_known):
                        viol.append({"clause": "deferred-sequence-metadata-request-iff-missing", "requested": has_md_req, "metadata_known": md_known,
                                     "naks": [wire.short(d) for d in ds]})
                    for d in ds:
                        if d["len"] > maxpkt:
                            viol.append({"clause": "nak-pdu-longer-than-max-packet-len", "len": d["len"], "max": maxpkt, "nak": wire.short(d)})
                        if d["scope"][0] > 0 or d["scope"][1] < size:
                            pass
                    obs["deferred_sequences_judged"] = obs.get("deferred_sequences_judged", 0) + 1
                    if len(ds) > 1:
                        obs["multi_pdu_sequences"] = obs.get("multi_pdu_sequences", 0) + 1
                        nreq = sum(len(d["reqs"]) for d in ds)
                        if nreq % cap == 0:
                            obs["sequences_filling_last_pdu_exactly"] = obs.get("sequences_filling_last_pdu_exactly", 0) + 1
                    if reissued:
                        obs["reissued_sequences_judged"] = obs.get("reissued_sequences_judged", 0) + 1
            elif started and not nak_events:
                # procedure started although nothing was missing?  then it must complete right away
                obs["deferred_started_without_nak"] = obs.get("deferred_started_without_nak", 0) + 1
            elif nak_events and not (started or reissued):
                obs["immediate_naks"] = obs.get("immediate_naks", 0) + len(nak_events)
                for e in nak_events:
                    d = wire.describe(e["sent_raw"])
                    if d.get("len", 0) > maxpkt:
                        obs["immediate_md_nak_overlength"] = obs.get("immediate_md_nak_overlength", 0) + 1
            # ---- the harness as sender: answer what was emitted ---------------------------------------
            for it in D.outbox:
                d = it["d"]
                if d.get("kind") == "NAK" and "reqs" in d:
                    pol = case["policy"]
                    if pol == "mixed":
                        pol = rng.choice(["full", "partial", "twice", "late", "none"])
                    if pol == "none":
                        continue
                    resp = []
                    for a, b in d["reqs"]:
                        if (a, b) == (0, 0):
                            resp.append(md)
                            continue
                        o = a
                        while o < b:
                            c = min(seg, b - o)
                            resp.append(fd_raw(o, c))
                            o += c
                    if pol == "partial":
                        resp = [x for x in resp if rng.random() < 0.6]
                    elif pol == "twice":
                        resp = resp + resp
                    elif pol == "late":
                        resp = ["tick"] * rng.choice([1, 2]) + resp
                    pending.extend(resp)
                elif d.get("kind") == "FIN":
                    pending.append(pdugen.raw("ACK_FIN", tc, {"cond": d.get("cond", "NO_ERROR")}))
            D.outbox.clear()
            if len(viol) >= 4:
                break
        # "when nothing is missing ... the transfer proceeds to completion"
        if steps >= BUDGET:
            # the scripted sender still had PDUs to deliver when the step budget ended: nothing can be said about completion
            obs["step_budget_exhausted_not_judged"] = 1
        elif complete_seq is not None and not viol:
            if finished is None:
                viol.append({"clause": "no-completion-although-nothing-is-missing", "step": D.h.step.name, "steps": steps})
            elif tuple(finished[:2]) != ("NO_ERROR", "DATA_COMPLETE"):
                viol.append({"clause": "unsuccessful-completion-although-nothing-is-missing", "fin": finished})
            else:
                obs["completions_after_nothing_missing"] = 1
        obs["naks_judged"] = naks_judged
        obs["calls"] = steps
        if finished is not None and finished[0] == "NAK_LIMIT_REACHED":
            obs["runs_ending_in_nak_limit"] = 1
        for v in viol:
            v["case"] = {k: case.get(k) for k in ("n", "seg", "tail", "imm", "cap", "crc", "idw", "policy", "seed", "warmup", "large")}
            v["script"] = case["script"][:30]
            v["max_packet_len"] = maxpkt
        sig = case if naks_judged else None
        sample = None
        if naks_judged >= 3 and obs.get("multi_pdu_sequences"):
            sample = {"script": case["script"][:20], "max_packet_len": maxpkt, "naks": [wire.short(wire.describe(e["raw"])) for e in w.log.of("enq", "D") if e["raw"] and wire.kind_of(e["raw"]) == "NAK"][:8]}
        return {"viol": viol, "obs": obs, "sig": sig, "sample": sample}


REQUIRED = {"naks_judged": 1000, "deferred_sequences_judged": 500, "multi_pdu_sequences": 100, "reissued_sequences_judged": 50, "metadata_requests_judged": 100,
            "segment_requests_judged": 1000, "completions_after_nothing_missing": 300, "immediate_naks": 100, "sequences_filling_last_pdu_exactly": 20, "runs_after_warmup_transaction": 100, "runs_with_large_file_flag": 100}
