"""C01 - a reported successful delivery implies a byte-identical file (hostile loopback)."""
from __future__ import annotations

import random

from .. import models, pdugen, wire
from ..msgs import request_extras
from ..oracles import C01Monitor, trace_summary
from ..world import InternalError, Plan, RandomPlan, Runner, World

PROP = "C01"
LEVEL = "exploration"
TECHNIQUE = "runtime monitoring: real handler pair over a hostile byte-level link (unbounded drop/dup/delay/reorder, file-data bit flips, rejected destination writes, sprinkled cancels); oracle inside the Transaction-Finished callback / at Finished-PDU retrieval compares the destination file with the source bytes"
RULE = (
    "a case = (configuration, PRNG seed of the fault schedule); per emitted PDU the link draws drop/dup/delay/hold/late/"
    "payload-bit-flip with probabilities up to 0.4 in total, with no bound on the number of faults; destination "
    "write_data/create/truncate calls are rejected (PermissionError/FileNotFoundError) at seeded positions; cancel requests "
    "are sprinkled with low probability.  null/modular checksums only see loss/dup/reorder in acknowledged mode (the "
    "property's quantifier).  Non-trivial = a success report was judged in a run where at least one fault was applied; "
    "distinct = distinct (configuration, applied fault list)"
)
ASSUMPTIONS = [
    "a PDU whose PDU-CRC check fails is dropped by the receiving entity (as spacepackets refuses to parse it)",
    "the oracle reads the destination with plain open(), not through the filestore under test",
    "an unfinished or unsuccessful transaction makes no claim and is not judged here",
]


def gen_cases(tier, seed):
    n = 6000 if tier == "quick" else 120000
    rng = random.Random(4242 + seed)
    cases = []
    for i in range(n):
        weak = rng.random() < 0.2  # null / modular checksum class
        seg = rng.choice([1, 3, 4, 8, 64])
        size = rng.choice([0, max(0, seg - 1), seg, 3 * seg, 3 * seg + 1, 9 * seg + 2]) if seg < 64 else rng.choice([0, 5, 64, 130])
        cfg = {
            "mode": "ack" if weak else rng.choice(["ack", "unack"]),
            "closure": rng.random() < 0.5,
            "imm_nak": rng.random() < 0.5,
            "cks": rng.choice(["null", "modular"]) if weak else rng.choice(["crc32", "crc32c"]),
            "crc": rng.random() < 0.4,
            "seg": seg,
            "maxpkt": 128,
            "size": size,
            "content": rng.choice([0, 1, 2, 3, "zeros", "ramp"]),
            "dest": rng.choice(["file", "file", "existing", "dir", "dir_existing"]),
            "ack_limit": rng.choice([2, 3, 6]),
            "nak_limit": rng.choice([2, 3, 6]),
            "check_limit": rng.choice([1, 2, 4]),
            "disp": rng.random() < 0.3,
        }
        scale = rng.choice([0.1, 0.25, 0.4])
        p = {"drop": 0.3 * scale, "dup": 0.2 * scale, "delay": 0.2 * scale, "quiet": 0.05 * scale, "late": 0.05 * scale,
             "flip": 0.0 if weak else 0.2 * scale}
        rejects = []
        if not weak and rng.random() < 0.3:
            rejects = sorted({rng.randrange(0, 12) for _ in range(rng.choice([1, 1, 2, 3]))})
        case = {"cfg": cfg, "seed": seed * 1_000_003 + i, "p": p, "rejects": rejects,
                "reject_exc": rng.choice(["PermissionError", "FileNotFoundError"]),
                "reject_create": (not weak) and rng.random() < 0.03,
                "cancel": None if rng.random() < 0.9 else [rng.choice(["S", "D"]), rng.randrange(1, 12)]}
        cfg["scribble_pdus"] = rng.random() < 0.2  # ... and one which edits every PDU object after it has taken its bytes
        if rng.random() < 0.15:
            case["drift"] = [rng.randrange(1 << 30), rng.choice([300, 1500])]  # slow entities: time passes before every call
        cfg.update(request_extras(rng, 0.15))  # options and (binary) messages to user in the put request
        cfg["scribble_user"] = rng.random() < 0.2  # a user which overwrites the attributes of the parameter objects its callbacks receive
        if rng.random() < 0.25:
            # the receiver's own default checksum type for this sender differs from the one the Metadata PDU announces (which decides)
            cfg["rc_at_dst"] = {"crc_type": rng.choice([k for k in ("null", "null", "modular", "crc32", "crc32c") if k != cfg["cks"]])}
        if rng.random() < 0.1:
            case["busy_put"] = rng.randrange(0, 10)  # a (refused) put request towards another entity while the transfer is running
        if rng.random() < 0.2:
            # a long-lived entity: several transfers to the same destination path through the same handlers, user and filestore objects;
            # the same or new content each time
            case["repeat"] = [rng.choice(["same", "same", "new", "shorter"]) for _ in range(rng.choice([1, 2, 3]))]
        cases.append(case)
    # weak checksums (null / modular, acknowledged mode, loss only) with the first Metadata PDU always lost: nothing but the lost-segment
    # bookkeeping stands between a hole in the file and a success report
    for i in range(500 if tier == "quick" else 10000):
        seg = rng.choice([3, 4, 8])
        cfg = {"mode": "ack", "closure": rng.random() < 0.5, "imm_nak": rng.random() < 0.7, "cks": rng.choice(["null", "null", "modular"]), "crc": rng.random() < 0.3,
               "seg": seg, "maxpkt": 128, "size": rng.choice([2 * seg, 3 * seg, 3 * seg + 1, 5 * seg]), "content": rng.choice([0, 1, 2, 3]), "dest": rng.choice(["file", "existing"]),
               "ack_limit": 4, "nak_limit": 4, "check_limit": 2, "disp": False}
        cases.append({"cfg": cfg, "seed": seed * 1_000_003 + 5_000_000 + i, "p": {"drop": rng.choice([0.15, 0.25, 0.35]), "delay": 0.05}, "rejects": [], "reject_exc": "PermissionError",
                      "reject_create": False, "cancel": None, "md_lost": True,
                      "pacing": rng.choice([{}, {"src_calls": 3}, {"src_calls": 5}, {"src_calls": 2, "dst_calls": 2}])})
    # crafted corruption: four bytes of one segment are replaced (in every copy that crosses the link) such that the file checksum differs
    # from the true one in chosen bytes only - a comparison which looks at part of the checksum would accept the file
    for cks in ("crc32", "crc32c"):
        for mode, closure in (("ack", False), ("unack", False), ("unack", True)):
            for diff in PARTIAL_DIFFS:
                for size, off in ((12, 4), (4, 0), (21, 16)):
                    cases.append({"partial": {"diff": diff, "off": off}, "seed": 1, "p": {}, "rejects": [], "reject_exc": "PermissionError", "reject_create": False,
                                  "cancel": None, "cfg": {"mode": mode, "closure": closure, "cks": cks, "seg": 4, "maxpkt": 128, "size": size,
                                                          "content": (len(cases) + seed) % 4, "check_limit": 1, "ack_limit": 2, "nak_limit": 2}})
    return cases


PARTIAL_DIFFS = ["00000001", "000000ff", "0000ffff", "00ffffff", "01000000", "ff000000", "ffff0000", "ffffff00", "00ffff00", "ff0000ff", "0000a500", "005a0000"]


class MdLostPlan(RandomPlan):
    """RandomPlan whose first Metadata PDU is always lost."""

    def on_emit(self, idx, item):
        if item["d"].get("kind") == "MD" and not getattr(self, "md_dropped", False):
            self.md_dropped = True
            self.applied.append((idx, "drop", wire.short(item["d"]), item["side"]))
            return []
        return super().on_emit(idx, item)


class CraftPlan(Plan):
    """Every copy of the File Data PDU which starts at ``off`` carries the crafted four bytes."""

    def __init__(self, off, window):
        super().__init__()
        self.off, self.window = off, window

    def on_emit(self, idx, item):
        d = item["d"]
        if item["side"] == "S" and d.get("kind") == "FD" and d.get("offset") == self.off and d.get("dlen") == 4:
            h = d["h"]
            conf = pdugen.conf(h["src"], h["dst"], h["seq"], idw=h["idw"], seqw=h["seqw"], mode="unack" if h["unack"] else "ack", crc=h["crc"])
            self.applied.append((idx, "flip", wire.short(d), "S"))
            return [("now", pdugen.raw("FD", conf, {"offset": self.off, "data": self.window}))]
        return [("now", item["raw"])]


def run_case(case):
    cfg = case["cfg"]
    with World(cfg) as w:
        mon = C01Monitor(w)
        rej = set(case["rejects"])
        exc_cls = {"PermissionError": PermissionError, "FileNotFoundError": FileNotFoundError}[case["reject_exc"]]
        nrej = [0]

        def fault(op, args, n):
            if op == "write_data" and n in rej:
                nrej[0] += 1
                return exc_cls("injected rejection")
            if case["reject_create"] and op in ("create_file", "truncate_file"):
                nrej[0] += 1
                return PermissionError("injected rejection")
            return None

        w.dst_fs.fault = fault
        plan = RandomPlan(case["seed"], case["p"])
        if case.get("md_lost"):
            plan = MdLostPlan(case["seed"], case["p"])
        if case.get("partial"):
            pc = case["partial"]
            window = models.crafted_window(cfg["cks"], w.data, pc["off"], bytes.fromhex(pc["diff"]))
            if window is None or window == w.data[pc["off"] : pc["off"] + 4]:
                return {"viol": [], "sig": None, "obs": {"partial_collision_not_constructible": 1}, "sample": None}
            plan = CraftPlan(pc["off"], window)
        actions = {}
        if case["cancel"]:
            actions[case["cancel"][1]] = [("cancel", case["cancel"][0])]
        if case.get("busy_put") is not None:
            actions.setdefault(case["busy_put"], []).insert(0, ("put_third",))
        r = Runner(w, plan=plan, max_expiries=40, max_rounds=3000, actions=actions, pacing=case.get("pacing"),
                   drift_ms=tuple(case["drift"]) if case.get("drift") else None)
        internal = None
        applied = []
        try:
            w.put()
            outcome = r.run()
            applied = [(a[1], a[2]) for a in plan.applied]
            for i, how in enumerate(case.get("repeat") or []):
                for ep in (w.S, w.D):
                    if ep.h.state.name != "IDLE":
                        ep.reset()
                        ep.drain()
                    ep.outbox.clear()
                if how == "new":
                    w.data = bytes((b + 1 + i) & 0xFF for b in w.data)
                elif how == "shorter":
                    w.data = w.data[: max(0, len(w.data) - 3)]
                w.cfg["size"] = len(w.data)
                w.write_raw("src", w.src_path, w.data)
                rej.clear()
                plan = RandomPlan(case["seed"] + 7919 * (i + 1), case["p"])
                r = Runner(w, plan=plan, max_expiries=40, max_rounds=3000)
                w.put()
                outcome = r.run()
                applied += [(a[1], a[2]) for a in plan.applied]
        except InternalError as e:
            outcome = "internal-error"
            internal = f"{type(e.exc).__name__}"
        viol = list(mon.viol)
        nflip = sum(1 for a in applied if a[0] == "flip")
        for v in viol:
            v["faults_applied"] = applied[:40]
            v["rejected_writes"] = nrej[0]
            v["trace"] = trace_summary(w, r, 80)
        interesting = mon.success_reports > 0 and (applied or nrej[0])
        obs = {
            "faults_applied": len(applied), "bit_flips": nflip, "writes_rejected": nrej[0],
            "success_reports_checked": mon.success_reports,
            "success_reports_after_fault": mon.success_reports if interesting else 0,
            "success_after_flip_or_rejection": mon.success_reports if (nflip or nrej[0]) and mon.success_reports else 0,
            "checksum_collisions": mon.collisions, "outcome_" + outcome: 1,
            "undeliverable_pdu_crc": r.unparsable, "cancel_sprinkled": int(bool(case["cancel"])),
            "internal_errors_not_judged_here": int(internal is not None), "repeated_transfers": len(case.get("repeat") or []),
            "receiver_mib_checksum_type_differs": int(bool(cfg.get("rc_at_dst"))),
        }
        if case.get("partial"):
            obs["crafted_partial_checksum_collisions_delivered"] = int(nflip > 0)
            fins = [e["fin"] for e in w.log.of("ind_finished", "D")]
            obs["crafted_partial_collisions_reported_unsuccessful"] = int(bool(fins) and not (fins[0][0] == "NO_ERROR" and fins[0][1] == "DATA_COMPLETE"))
            interesting = nflip > 0 and bool(fins)
        for k, n in mon.by_reporter.items():
            obs["judged_" + k] = n
        sig = [sorted((k, str(v)) for k, v in cfg.items()), applied, case["rejects"], case.get("partial")] if interesting else None
        sample = None
        if interesting and (nflip or nrej[0]):
            sample = {"outcome": outcome, "faults": applied[:20], "rejected_writes": nrej[0], "trace": trace_summary(w, r, 50)}
        return {"viol": viol, "sig": sig, "obs": obs, "sample": sample,
                "keys": {"step_pairs": [f"{a}|{b}" for a, b in r.steps_seen]}}


REQUIRED = {"receiver_mib_checksum_type_differs": 200, "crafted_partial_checksum_collisions_delivered": 100, "crafted_partial_collisions_reported_unsuccessful": 100, "success_reports_after_fault": 50, "bit_flips": 50, "writes_rejected": 20, "success_after_flip_or_rejection": 5,
            "judged_receiver-indication": 20, "judged_finished-pdu": 20, "judged_sender-indication": 20}
