"""C11 - transactions are isolated from earlier transactions and other handler instances."""
from __future__ import annotations

import copy
import random
import sys
import threading
import time

from spacepackets.util import ByteFieldGenerator

from .. import vclock, wire
from ..oracles import trace_summary
from ..world import CKS, EnumPlan, InternalError, Plan, RandomPlan, Runner, World

PROP = "C11"
LEVEL = "exploration"
TECHNIQUE = "differential runtime monitoring: the byte-exact observable trace (PDUs in order, indications with parameters, fault callbacks, exceptions, resulting file) of a transaction T is recorded (a) on freshly constructed handlers whose sequence-number provider is preset, (b) on the same handler objects after a history of earlier transactions (completed, cancelled by either user or by the peer, limit fault, abandoned, stuck-then-reset), (c) with 2-4 sibling handler pairs in the same thread stepped in seeded alternation while mid-transaction, (d) in 4 threads with sys.monitoring LINE-event yield injection on the library code and a 1 us switch interval; all traces of T must be equal"
RULE = (
    "history cases = (MIB configuration, history H of 1-3 earlier transactions drawn from 7 kinds x mode x closure x size, follow-up T drawn from {empty file, "
    "small file, multi-segment with one lost PDU, multi-segment with random faults, metadata-only, cancelled} x mode x closure); sibling cases = 2-4 such "
    "(H,T) scripts on separate handler pairs interleaved round by round with a seeded order; thread cases = 4 threads x several scripts with seeded yield "
    "injection.  Non-trivial = T was executed after at least one earlier transaction (or next to an active sibling) and its trace compared; distinct = distinct cases"
)
ASSUMPTIONS = [
    "'up to the transaction sequence number': the fresh handler's sequence-number provider is preset to the value T received in the reused run, so traces are compared byte for byte without masking",
    "the destination filestore content left behind by the history (earlier output files) is copied to the fresh run before T starts, so both runs see the same files",
    "each loopback world has its own virtual time line; yield injection only moves thread switches, it does not change what a handler is called with",
    "handler instances are not shared between threads (the library documents that a handler does not support concurrent use)",
]

H_KINDS = ["completed", "cancel_S", "cancel_D", "limit", "abandon", "stuck_reset", "lossy", "reset_undrained", "abandon_queued"]
T_KINDS = ["empty", "small", "multi_loss", "multi_random", "md_only", "cancelled", "silenced"]


class SilencePlan(Plan):
    """drops every PDU of the given direction(s) from emission index k on"""

    def __init__(self, k, sides):
        super().__init__()
        self.k, self.sides = k, sides

    def on_emit(self, idx, item):
        if idx >= self.k and item["side"] in self.sides:
            self.applied.append((idx, "drop", wire.short(item["d"]), item["side"]))
            return []
        return [("now", item["raw"])]


class StormPlan(Plan):
    """the first copy of every second File Data PDU is lost"""

    def __init__(self, seg):
        super().__init__()
        self.seg = seg
        self.seen = set()

    def on_emit(self, idx, item):
        d = item["d"]
        if item["side"] == "S" and d.get("kind") == "FD" and (d["offset"] // max(1, self.seg)) % 2 == 1 and d["offset"] not in self.seen:
            self.seen.add(d["offset"])
            self.applied.append((idx, "drop", wire.short(d), "S"))
            return []
        return [("now", item["raw"])]


def gen_script(rng, nh=None):
    base = {"mode": "ack", "closure": False, "seg": rng.choice([4, 4, None]), "maxpkt": rng.choice([64, 36]), "size": 0, "fs": "mem", "ack_limit": 2, "nak_limit": 2, "check_limit": 2,
            "imm_nak": rng.random() < 0.5, "cks": rng.choice(["crc32", "crc32c", "modular", "null"]), "crc": rng.random() < 0.2,
            "disp": rng.random() < 0.4, "content": 0, "dest": rng.choice(["file", "dir"])}
    if rng.random() < 0.6:
        # every entity configures its own fault handler table (explicitly, also with the default code)
        codes = ["ignore", "cancel", "abandon"]
        base["fh_src"] = {c: rng.choice(codes) for c in ("POSITIVE_ACK_LIMIT_REACHED", "CHECK_LIMIT_REACHED") if rng.random() < 0.8}
        base["fh_dst"] = {c: rng.choice(codes) for c in ("POSITIVE_ACK_LIMIT_REACHED", "NAK_LIMIT_REACHED", "FILE_CHECKSUM_FAILURE", "CHECK_LIMIT_REACHED") if rng.random() < 0.6}
    if rng.random() < 0.25:
        base["fs"] = "native"  # (the library's own filestore class: one object per user, used for all of that user's transactions)
    hist = []
    for _ in range(nh if nh is not None else rng.choice([1, 1, 2, 3])):
        hist.append({"kind": rng.choice(H_KINDS), "mode": rng.choice(["ack", "unack"]), "closure": rng.random() < 0.5, "size": rng.choice([0, 3, 9, 25]),
                     "seed": rng.randrange(1 << 30), "at": rng.randrange(1, 9), "idw": rng.choice([2, 2, 1, 4]), "mib": gen_mib(rng),
                     "pacing": rng.choice(PACINGS)})
    t = {"kind": rng.choice(T_KINDS), "mode": rng.choice(["ack", "unack"]), "closure": rng.random() < 0.5, "seed": rng.randrange(1 << 30), "at": rng.randrange(1, 7),
         "idw": rng.choice([2, 2, 1, 4]), "mib": gen_mib(rng), "pacing": rng.choice(PACINGS)}
    for spec in hist + [t]:
        if rng.random() < 0.3:
            # the put request carries options (fault handler overrides for conditions the receiver can declare, filestore requests, a flow
            # label) and messages to user: they belong to that one transaction
            conds = ["FILE_CHECKSUM_FAILURE", "FILE_SIZE_ERROR", "NAK_LIMIT_REACHED", "POSITIVE_ACK_LIMIT_REACHED", "CHECK_LIMIT_REACHED", "FILESTORE_REJECTION"]
            spec["opts"] = {"overrides": [[c, rng.choice(["IGNORE_ERROR", "NOTICE_OF_CANCELLATION", "ABANDON_TRANSACTION"])] for c in conds if rng.random() < 0.6],
                            "fs_requests": rng.choice([0, 0, 2]), "flow_label": rng.choice([None, "", "0a0b"])}
            spec["msgs"] = rng.choice([None, [["raw", "80818283848586"]], [["orig", 5, 2, 7, 2], ["raw", "0102030405"]]])
    return {"base": base, "hist": hist, "t": t}


PACINGS = [None, None, {"src_calls": 3}, {"src_calls": 6}, {"dst_calls": 3}, {"src_calls": 2, "dst_calls": 2}, {"dst_idle": 2}, {"src_idle": 2, "dst_calls": 2}]


def gen_mib(rng):
    """values of the remote entity configuration which the user may change between two transactions"""
    return {"positive_ack_timer_interval_seconds": rng.choice([1.0, 1.0, 0.3, 2.5]), "nak_timer_interval_seconds": rng.choice([1.0, 1.0, 0.4, 3.0]),
            "positive_ack_timer_expiration_limit": rng.choice([2, 2, 3]), "nak_timer_expiration_limit": rng.choice([2, 2, 3]),
            "crc_on_transmission": rng.random() < 0.4, "crc_type": rng.choice(["crc32", "crc32c", "modular", "null"]),
            "check_limit": rng.choice([1, 2, 3]), "disposition_on_cancellation": rng.random() < 0.4}


def gen_cases(tier, seed):
    rng = random.Random(1100 + seed)
    cases = []
    n = 1500 if tier == "quick" else 40000
    for i in range(n):
        cases.append({"t": "history", "script": gen_script(rng)})
    # directed: the receiver abandons a transaction in a call which had already queued a PDU (a NAK, then File Size Error -> abandon)
    for i in range(60 if tier == "quick" else 600):
        sc = gen_script(rng, nh=rng.choice([1, 2]))
        sc["base"].update({"seg": 4, "imm_nak": True})
        sc["base"]["fh_dst"] = dict(sc["base"].get("fh_dst") or {}, FILE_SIZE_ERROR="abandon")
        sc["base"].setdefault("fh_src", {})
        sc["hist"][-1].update({"kind": "abandon_queued", "mode": "ack"})
        cases.append({"t": "history", "script": sc})
    # directed: the user's source file was rewritten in place since it was last sent (same name, same length, other bytes), and the same
    # filestore object serves both transfers
    for i in range(60 if tier == "quick" else 600):
        sc = gen_script(rng, nh=rng.choice([1, 2]))
        sc["base"].update({"fs": rng.choice(["native", "native", "mem"]), "cks": rng.choice(["crc32", "crc32c", "modular"])})
        tk = rng.choice(["small", "multi_loss", "silenced", "multi_random"])
        tsize = {"small": 3, "multi_loss": 23, "silenced": 9, "multi_random": 29}[tk]
        sc["t"].update({"kind": tk})
        sc["t"]["mib"]["crc_type"] = rng.choice(["crc32", "crc32c", "modular"])
        sc["hist"][-1].update({"kind": rng.choice(["completed", "completed", "lossy", "cancel_S"]), "size": tsize, "mib": dict(sc["t"]["mib"])})
        sc["same_size_as_before"] = True
        cases.append({"t": "history", "script": sc})
    n = 300 if tier == "quick" else 8000
    for i in range(n):
        k = rng.choice([2, 2, 3, 4])
        scripts = [gen_script(rng, nh=rng.choice([0, 0, 1])) for _ in range(k)]
        share = rng.random() < 0.5
        if share:
            # several handlers of one entity: same MIB objects (remote entity configuration table) for all of them
            for sc in scripts[1:]:
                sc["base"] = dict(scripts[0]["base"])
            for sc in scripts:
                # the shared MIB objects stay as they are while the siblings run (a change would legitimately be seen by all of them)
                for spec in sc["hist"] + [sc["t"]]:
                    spec["mib"] = None
        cases.append({"t": "siblings", "scripts": scripts, "order_seed": rng.randrange(1 << 30), "share_mib": share, "by_call": i % 2 == 1})
    # directed sibling pairs: both senders serve many NAKs at the same time, one while it is still sending file data (immediate NAKs), the
    # other while it waits for the ACK of its EOF / for the Finished PDU (deferred NAK sequences of several PDUs)
    for i in range(40 if tier == "quick" else 400):
        scripts = [gen_script(rng, nh=0) for _ in range(2)]
        for j, sc in enumerate(scripts):
            sc["base"].update({"seg": 4, "maxpkt": 36, "imm_nak": j == 0, "nak_limit": 4, "ack_limit": 4})
            sc["t"].update({"kind": "nak_storm", "mode": "ack", "mib": None})
        cases.append({"t": "siblings", "scripts": scripts, "order_seed": rng.randrange(1 << 30), "share_mib": False, "by_call": True})
    n = 6 if tier == "quick" else 60
    for i in range(n):
        cases.append({"t": "threads", "scripts": [[gen_script(rng, nh=rng.choice([0, 1, 2])) for _ in range(6 if tier == "quick" else 12)] for _ in range(4)],
                      "yield_seed": rng.randrange(1 << 30)})
    return cases


# ---- running one transaction on a world ------------------------------------------------------------


def setup_transaction(w: World, spec, kind, content_tag):
    """prepares files/config for the next transaction on world w; returns (plan, actions, max_expiries)"""
    size = {"empty": 0, "small": 3, "multi_loss": 23, "multi_random": 29, "md_only": 0, "cancelled": 23, "silenced": 9, "abandon_queued": 10, "nak_storm": 41}.get(kind, spec.get("size", 9))
    w.cfg["metadata_only"] = kind == "md_only"
    w.cfg["size"] = size
    # the width of the destination id given in the put request may differ from request to request (the MIB is keyed by value)
    w.dst_id = ByteFieldGenerator.from_int(spec.get("idw", 2), 2)
    for rc in (w.rc_dst_at_src, w.rc_src_at_dst):
        for k, v in (spec.get("mib") or {}).items():
            setattr(rc, k, CKS[v] if k == "crc_type" else v)
    w.cfg["opts"], w.cfg["msgs"] = spec.get("opts"), spec.get("msgs")
    w.cfg["req_mode"] = spec["mode"]
    w.cfg["req_closure"] = spec["closure"]
    w.cfg["mode"] = spec["mode"]  # (oracle helpers read the effective mode from here)
    w.cfg["closure"] = spec["closure"]
    w.data = b"" if kind == "md_only" else bytes((content_tag * 31 + 7 * j) & 0xFF for j in range(size))
    if kind != "md_only":
        w.write_raw("src", w.src_path, w.data)
    plan, actions, max_exp = None, {}, 14
    if kind == "multi_loss":
        plan = EnumPlan({spec["at"] % 5 + 1: "drop"})
    elif kind in ("multi_random", "lossy"):
        plan = RandomPlan(spec["seed"], {"drop": 0.1, "dup": 0.05, "delay": 0.08})
    elif kind in ("cancelled", "cancel_S"):
        actions = {spec["at"]: [("cancel", "S")]}
    elif kind == "cancel_D":
        actions = {spec["at"]: [("cancel", "D")]}
    elif kind in ("limit", "abandon", "silenced"):
        plan = SilencePlan(spec["at"], "D" if spec["seed"] % 2 else "SD")
        max_exp = 20
    elif kind == "stuck_reset":
        plan = SilencePlan(spec["at"] % 4 + 1, "S")
        max_exp = 6
    elif kind == "nak_storm":
        plan = StormPlan(4)
    elif kind == "abandon_queued":
        # segment [4,8) never arrives, the EOF announces 3 bytes less than were sent and the last segment arrives after it: with immediate
        # NAKs the late segment queues a NAK for the gap and is then found to exceed the EOF's file size
        from .c14 import StimPlan

        plan = StimPlan({"size_error_fd", "dst_nak_limit"}, random.Random(spec["seed"]))
        max_exp = 8
    return plan, actions, max_exp


def t_trace(w: World, mark: int):
    out = []
    # with the native filestore the path names contain the name of this world's scratch directory: it is replaced by a fixed word (and the
    # PDU CRC, which covers it, is left out of such PDUs) so that runs in different directories compare equal
    sb = w.sandbox.name if w.sandbox is not None else None
    for e in w.log.events:
        if e["seq"] < mark:
            continue
        k = e["kind"]
        if k in ("tx", "tx_shell"):
            raw = e["raw"]
            if sb is not None and raw is not None and sb.encode() in raw:
                raw = (raw[:-2] if raw[0] & 0x02 else raw).replace(sb.encode(), b"SANDBOX")
            out.append((e["side"], k, raw))
        elif k.startswith("ind_") or k == "fh":
            out.append((e["side"], k, tuple(sorted((a, repr(b) if sb is None else repr(b).replace(sb, "SANDBOX")) for a, b in e.items() if a not in ("seq", "kind", "side")))))
        elif k == "exc":
            out.append((e["side"], "exc", e["api"], e["etype"], (e["msg"] if sb is None else e["msg"].replace(sb, "SANDBOX"))[:60]))
        elif k == "action":
            out.append((e["side"], "action", e["what"], e["res"]))
        elif k == "clock":
            out.append(("-", "clock", e["advanced_ms"]))  # virtual time that had to pass before the next timer expired
    return out


def undrained_reset(w: World, r: Runner):
    """the user gives up on a transaction: one more call on each side whose PDUs are never retrieved, then reset()"""
    for ep, wire_q in ((w.D, r.s2d), (w.S, r.d2s)):
        ep.autodrain = False
        try:
            if wire_q:
                raw = wire_q.pop(0)
                try:
                    ep.sm(wire.parse(raw), {"kind": wire.kind_of(raw)})
                except Exception:  # noqa: BLE001
                    pass
            else:
                try:
                    ep.sm()
                except Exception:  # noqa: BLE001
                    pass
            ep.reset()
        finally:
            ep.autodrain = True
        ep.drain()
        ep.outbox.clear()
    r.s2d.clear()
    r.d2s.clear()
    r.held.clear()


def run_history(w: World, hist, stepper=None):
    """executes the history transactions; afterwards both handlers are idle (reset if necessary)."""
    notes = []
    for i, h in enumerate(hist):
        plan, actions, max_exp = setup_transaction(w, h, h["kind"], 100 + i)
        r = Runner(w, plan=plan, actions=actions, max_expiries=max_exp, max_rounds=(h["at"] + 1 if h["kind"] == "reset_undrained" else 1500), pacing=h.get("pacing"))
        try:
            w.put()
            if stepper is None:
                r.run()
            else:
                for _ in r.steps():
                    stepper()
            if h["kind"] == "reset_undrained":
                undrained_reset(w, r)
        except InternalError as e:
            notes.append(f"internal:{type(e.exc).__name__}")
        except Exception as e:  # noqa: BLE001
            notes.append(f"put:{type(e).__name__}")
        notes.append(f"{h['kind']}:{r.outcome}")
        for ep in (w.S, w.D):
            if ep.h.state.name != "IDLE":
                ep.reset()
                ep.drain()
                ep.outbox.clear()
                notes.append(f"reset-{ep.side}")
        w.S.outbox.clear()
        w.D.outbox.clear()
    return notes


def run_t(w: World, t, stepper=None):
    plan, actions, max_exp = setup_transaction(w, t, t["kind"], 7)
    mark = w.log.seq
    r = Runner(w, plan=plan, actions=actions, max_expiries=max_exp, max_rounds=1500, pacing=t.get("pacing"))
    try:
        w.put()
        if stepper is None:
            r.run()
        else:
            for _ in r.steps():
                stepper()
    except InternalError as e:
        pass
    except Exception as e:  # noqa: BLE001
        w.log.add("exc", "S", api="put_request", etype=type(e).__name__, msg=str(e)[:60], frames=[], call_seq=None, proto=False, after=None)
    return t_trace(w, mark), w.dest_bytes(), r


def solo(script):
    """(b) reused handlers: history then T;  (a) fresh handlers with preset sequence number and the same leftover files."""
    with World(dict(script["base"])) as w:
        notes = run_history(w, script["hist"])
        seq_before = w.seq_provider.count
        native = w.sandbox is not None
        if native:
            left = w.host_tree()
        else:
            left_dst = copy.deepcopy(w.dst_inner.files), set(w.dst_inner.dirs)
            left_src = copy.deepcopy(w.src_inner.files), set(w.src_inner.dirs)
        tr_b, dest_b, r_b = run_t(w, script["t"])
        summary = trace_summary(w, r_b, 50)[-40:]
    base = dict(script["base"], seq_start=seq_before)
    with World(base) as w:
        if native:
            # the same leftover files, in the fresh user's own directory (and behind a filestore object of its own)
            for rel, content in left.items():
                if content == "DIR":
                    (w.sandbox / rel).mkdir(parents=True, exist_ok=True)
            for rel, content in left.items():
                if content != "DIR":
                    (w.sandbox / rel).write_bytes(content)
        else:
            w.dst_inner.files, w.dst_inner.dirs = copy.deepcopy(left_dst[0]), set(left_dst[1])
            w.src_inner.files, w.src_inner.dirs = copy.deepcopy(left_src[0]), set(left_src[1])
        tr_a, dest_a, r_a = run_t(w, script["t"])
    return tr_a, dest_a, tr_b, dest_b, notes, summary


def diff(tr_x, tr_y):
    j = next((i for i, (a, b) in enumerate(zip(tr_x, tr_y)) if a != b), min(len(tr_x), len(tr_y)))

    def br(items):
        out = []
        for x in items:
            if x[1] in ("tx", "tx_shell") and x[2] is not None:
                out.append(f"{x[0]}>{wire.short(wire.describe(x[2]))}")
            else:
                out.append(str(x)[:200])
        return out

    return {"first_difference_at": j, "lengths": (len(tr_x), len(tr_y)), "left": br(tr_x[j : j + 3]), "right": br(tr_y[j : j + 3])}


def run_history_case(case):
    viol, obs = [], {}
    sc = case["script"]
    tr_a, dest_a, tr_b, dest_b, notes, summary = solo(sc)
    if tr_a != tr_b:
        viol.append({"clause": "transaction-behaves-differently-after-history", "history": notes, "t": sc["t"], **diff(tr_a, tr_b), "trace_reused": summary})
    elif dest_a != dest_b:
        viol.append({"clause": "file-differs-after-history", "history": notes, "t": sc["t"]})
    else:
        obs["fresh_vs_reused_equal"] = 1
    for n in notes:
        obs["hist_" + n.split(":")[0]] = obs.get("hist_" + n.split(":")[0], 0) + 1
    obs["t_" + sc["t"]["kind"]] = 1
    obs["histories_on_native_filestore"] = int(sc["base"].get("fs") == "native")
    obs["source_file_rewritten_in_place_since_last_transfer"] = int(bool(sc.get("same_size_as_before")))
    obs["transactions_with_put_request_options"] = sum(1 for x in sc["hist"] + [sc["t"]] if x.get("opts"))
    obs["trace_events_compared"] = len(tr_a)
    return {"viol": viol, "obs": obs, "sig": case, "sample": {"history": notes, "t": sc["t"], "events": len(tr_a)} if len(notes) > 2 else None}


class Baton:
    """Deterministic hand-over between the threads of a sibling case: exactly one runs at a time, and at every API call boundary a seeded
    choice decides who goes on (interleaving at the granularity of single handler calls)."""

    def __init__(self, n, seed):
        self.rng = random.Random(seed)
        self.cv = threading.Condition()
        self.alive = set(range(n))
        self.cur = self.rng.choice(sorted(self.alive))
        self.switches = 0

    def wait_turn(self, i):
        with self.cv:
            while self.cur != i:
                self.cv.wait()

    def hand_over(self, i):
        with self.cv:
            nxt = self.rng.choice(sorted(self.alive))
            if nxt != i:
                self.switches += 1
                self.cur = nxt
                self.cv.notify_all()
                while self.cur != i:
                    self.cv.wait()

    def done(self, i):
        with self.cv:
            self.alive.discard(i)
            if self.alive:
                self.cur = self.rng.choice(sorted(self.alive))
            self.cv.notify_all()


def run_siblings_by_call(case, scripts, worlds, solos, viol, obs):
    baton = Baton(len(scripts), case["order_seed"])
    results = [None] * len(scripts)
    errors = []

    def work(i):
        w, sc = worlds[i], scripts[i]
        baton.wait_turn(i)
        try:
            w.call_hook = lambda: baton.hand_over(i)
            run_history(w, sc["hist"])
            tr, dest, _ = run_t(w, sc["t"])
            results[i] = (tr, dest)
        except BaseException as e:  # noqa: BLE001
            errors.append(f"{type(e).__name__}: {e}")
        finally:
            w.call_hook = None
            baton.done(i)

    ths = [threading.Thread(target=work, args=(i,), daemon=True) for i in range(len(scripts))]
    for t in ths:
        t.start()
    for t in ths:
        t.join(timeout=120)
    if any(t.is_alive() for t in ths) or errors:
        raise RuntimeError(f"sibling threads did not finish (watchdog) or failed: {errors[:2]}")
    obs["sibling_cases_interleaved_by_call"] = 1
    return results, baton.switches


def run_siblings_case(case):
    """(c): every script's T next to siblings must equal its solo trace (computed on reused handlers, solo)."""
    viol, obs = [], {}
    scripts = case["scripts"]
    solos = [solo(sc) for sc in scripts]
    rng = random.Random(case["order_seed"])
    worlds = [World(dict(sc["base"])) for sc in scripts]
    if case.get("share_mib"):
        for w in worlds[1:]:
            w.S.h.remote_cfg_table = worlds[0].S.h.remote_cfg_table
            w.D.h.remote_cfg_table = worlds[0].D.h.remote_cfg_table
        obs["sibling_cases_sharing_mib"] = 1
    try:
        # generators: each yields after every scheduler round
        results = [None] * len(scripts)

        def make(i):
            w, sc = worlds[i], scripts[i]

            def gen():
                box = []

                def stepper():
                    box.append(1)

                # run history + T as one generator by re-implementing the loops with yields
                for hi, h in enumerate(sc["hist"]):
                    plan, actions, max_exp = setup_transaction(w, h, h["kind"], 100 + hi)
                    r = Runner(w, plan=plan, actions=actions, max_expiries=max_exp, max_rounds=(h["at"] + 1 if h["kind"] == "reset_undrained" else 1500), pacing=h.get("pacing"))
                    try:
                        w.put()
                        for _ in r.steps():
                            yield
                        if h["kind"] == "reset_undrained":
                            undrained_reset(w, r)
                    except (InternalError, Exception):  # noqa: BLE001
                        pass
                    for ep in (w.S, w.D):
                        if ep.h.state.name != "IDLE":
                            ep.reset()
                            ep.drain()
                            ep.outbox.clear()
                    w.S.outbox.clear()
                    w.D.outbox.clear()
                    yield
                plan, actions, max_exp = setup_transaction(w, sc["t"], sc["t"]["kind"], 7)
                mark = w.log.seq
                r = Runner(w, plan=plan, actions=actions, max_expiries=max_exp, max_rounds=1500, pacing=sc["t"].get("pacing"))
                try:
                    w.put()
                    for _ in r.steps():
                        yield
                except InternalError:
                    pass
                except Exception as e:  # noqa: BLE001
                    w.log.add("exc", "S", api="put_request", etype=type(e).__name__, msg=str(e)[:60], frames=[], call_seq=None, proto=False, after=None)
                results[i] = (t_trace(w, mark), w.dest_bytes())

            return gen()

        gens = {i: make(i) for i in range(len(scripts))}
        switches = 0
        last = None
        if case.get("by_call"):
            gens = {}
            results, switches = run_siblings_by_call(case, scripts, worlds, solos, viol, obs)
        while gens:
            i = rng.choice(sorted(gens))
            if last is not None and i != last:
                switches += 1
            last = i
            try:
                next(gens[i])
            except StopIteration:
                del gens[i]
        for i, sc in enumerate(scripts):
            tr_a, dest_a, tr_b, dest_b, notes, summary = solos[i]
            got = results[i]
            if got is None:
                viol.append({"clause": "harness-sibling-did-not-finish", "i": i})
                continue
            if got[0] != tr_b:
                viol.append({"clause": "transaction-behaves-differently-next-to-sibling-instances", "sibling_index": i, "siblings": len(scripts), "t": sc["t"],
                             **diff(tr_b, got[0])})
            elif got[1] != dest_b:
                viol.append({"clause": "file-differs-next-to-sibling-instances", "sibling_index": i})
            else:
                obs["sibling_traces_equal"] = obs.get("sibling_traces_equal", 0) + 1
        obs["sibling_switches"] = switches
        obs["sibling_cases"] = 1
    finally:
        for w in worlds:
            w.close()
    return {"viol": viol, "obs": obs, "sig": case, "sample": {"siblings": len(scripts), "switches": switches}}


# ---- threads with yield injection ----------------------------------------------------------------------

TOOL = 3  # sys.monitoring tool id


def run_threads_case(case):
    viol, obs = [], {}
    lists = case["scripts"]
    solos = [[solo(sc) for sc in lst] for lst in lists]
    results = [[None] * len(lst) for lst in lists]
    errors = []
    yields = [0]
    lock = threading.Lock()
    rng = random.Random(case["yield_seed"])
    mon = getattr(sys, "monitoring", None)
    injected = False
    if mon is not None:
        try:
            mon.use_tool_id(TOOL, "cfdpmon-yield")

            def on_line(code, line):
                if "cfdppy" not in code.co_filename:
                    return mon.DISABLE
                with lock:
                    coin = rng.random() < 0.08
                    if coin:
                        yields[0] += 1
                if coin:
                    time.sleep(0)
                return None

            mon.register_callback(TOOL, mon.events.LINE, on_line)
            mon.set_events(TOOL, mon.events.LINE)
            injected = True
        except Exception as e:  # noqa: BLE001
            obs["yield_injection_unavailable"] = 1
    old_si = sys.getswitchinterval()
    sys.setswitchinterval(1e-6)

    def worker(ti):
        try:
            for j, sc in enumerate(lists[ti]):
                with World(dict(sc["base"])) as w:
                    run_history(w, sc["hist"])
                    tr, dest, _ = run_t(w, sc["t"])
                    results[ti][j] = (tr, dest)
        except Exception as e:  # noqa: BLE001
            import traceback

            errors.append(traceback.format_exc()[-600:])

    threads = [threading.Thread(target=worker, args=(i,)) for i in range(len(lists))]
    try:
        for t in threads:
            t.start()
        for t in threads:
            t.join(timeout=600)
    finally:
        sys.setswitchinterval(old_si)
        if injected:
            mon.set_events(TOOL, 0)
            mon.register_callback(TOOL, mon.events.LINE, None)
            mon.free_tool_id(TOOL)
    if errors:
        viol.append({"clause": "exception-in-threaded-run", "error": errors[0]})
    for ti, lst in enumerate(lists):
        for j, sc in enumerate(lst):
            tr_a, dest_a, tr_b, dest_b, notes, summary = solos[ti][j]
            got = results[ti][j]
            if got is None:
                if not errors:
                    viol.append({"clause": "harness-thread-did-not-finish", "thread": ti, "script": j})
                continue
            if got[0] != tr_b:
                viol.append({"clause": "transaction-behaves-differently-in-concurrent-threads", "thread": ti, "script": j, "t": sc["t"], **diff(tr_b, got[0])})
            elif got[1] != dest_b:
                viol.append({"clause": "file-differs-in-concurrent-threads", "thread": ti, "script": j})
            else:
                obs["thread_traces_equal"] = obs.get("thread_traces_equal", 0) + 1
    obs["thread_cases"] = 1
    obs["yields_injected"] = yields[0]
    return {"viol": viol, "obs": obs, "sig": case["yield_seed"], "sample": {"threads": len(lists), "yields_injected": yields[0]}}


def run_case(case):
    return {"history": run_history_case, "siblings": run_siblings_case, "threads": run_threads_case}[case["t"]](case)


NO_DEV_MODE = True  # -X dev slows the LINE callbacks down by an order of magnitude

REQUIRED = {"fresh_vs_reused_equal": 500, "sibling_traces_equal": 300, "thread_traces_equal": 50, "yields_injected": 1000, "sibling_switches": 1000,
            "hist_completed": 50, "hist_cancel_S": 50, "hist_cancel_D": 50, "hist_limit": 50, "hist_abandon": 50, "hist_stuck_reset": 50, "hist_lossy": 50, "hist_reset_undrained": 50, "hist_abandon_queued": 40, "sibling_cases_interleaved_by_call": 50,
            "histories_on_native_filestore": 100, "source_file_rewritten_in_place_since_last_transfer": 40, "transactions_with_put_request_options": 200}
