"""C08 - retransmissions deliver exactly the requested data and nothing else."""
from __future__ import annotations

import itertools
import random

from .. import models, pdugen, prep, vclock, wire
from ..world import PROTO_EXC, World

PROP = "C08"
LEVEL = "exploration"
TECHNIQUE = "runtime monitoring of the real SourceHandler with scripted NAK PDUs injected before every state_machine call of a transfer (sending file data, awaiting the EOF ACK, awaiting Finished): the PDUs emitted afterwards are split into retransmissions and original stream by an independent NAK-servicing model (tiling of each valid request with the file's bytes, Metadata for (0,0), rejection of inverted / beyond-progress requests) and the original stream is compared byte for byte with a reference run of the same request without NAKs"
RULE = (
    "a case = (configuration: size x segment length x PDU CRC x checksum x id width, injection point k = index of the state_machine call before which the NAK "
    "is delivered (every call of the reference run), request list).  Request lists: exhaustive singles over the classes {aligned, unaligned, whole, 0-length, "
    "(0,0), inverted, start beyond progress, end beyond progress, beyond file size} computed from the progress at k, all pairs of those classes at selected points, "
    "plus seeded random lists of 0-4 requests and runs with several NAKs.  Non-trivial = the NAK reached the handler while a transaction was active; distinct = distinct cases"
)
ASSUMPTIONS = [
    "'data sent so far' = highest end offset of the new File Data PDUs retrieved before the NAK is delivered (counted by the harness)",
    "a PDU emitted after a NAK counts as retransmission if it is a Metadata PDU or a File Data PDU ending at or below that progress; everything else must be the original stream",
    "where a NAK mixes valid and invalid requests, serving valid requests that precede the invalid one before rejecting is accepted (the statement is silent)",
    "rejection = any of the library's protocol exceptions; the clock is not advanced, so no timer driven EOF re-sends occur",
]
LAG = 2


def drive(w: World, naks: dict[int, list[bytes]], max_calls: int = 400, tick: bool = False):
    """naks: reference call index -> NAK PDUs delivered (each in its own call) before that call.  tick: the positive ACK timer of the EOF
    expires just before the first NAK that finds the sender waiting for the ACK (EOF) is delivered."""
    S = w.S
    tc = prep.tx_conf(w)
    recs = []
    w.put()
    ref_idx = 0
    eof_call = None
    acked = fin = False
    sent = 0  # progress counted by the harness
    md_raw = None

    def call(raw, what):
        nonlocal sent, md_raw, eof_call
        S.outbox.clear()
        before = (S.h.state.name, S.h.step.name)
        exc = None
        try:
            if raw is None:
                S.sm()
            else:
                e = prep.feed(S, raw)
                exc = None if e is None else type(e).__name__
        except PROTO_EXC as e:
            exc = type(e).__name__
        except Exception as e:  # noqa: BLE001
            exc = "INTERNAL:" + type(e).__name__ + ":" + str(e)[:100]
        out = [(it["raw"], it["d"]) for it in S.outbox]
        rec = {"what": what, "before": before, "sent_before": sent, "exc": exc, "out": out, "ref_idx": ref_idx, "md_known": md_raw is not None}
        for raw_o, d in out:
            if d.get("kind") == "FD" and "offset" in d and d["offset"] >= sent:
                sent = max(sent, d["offset"] + d["dlen"])
            if d.get("kind") == "MD" and md_raw is None:
                md_raw = raw_o
            if d.get("kind") == "EOF" and eof_call is None:
                eof_call = ref_idx
        recs.append(rec)
        return rec

    ticked = 0
    while ref_idx < max_calls:
        for nk in naks.get(ref_idx, []):
            if tick and not ticked and S.h.step.name == "WAITING_FOR_EOF_ACK":
                vclock.use(w.clock)
                vclock.advance_to_next_expiry()
                ticked = 1
            call(nk, "nak")
        if S.h.state.name == "IDLE":
            break
        raw = None
        what = "idle"
        if eof_call is not None:
            if not acked and ref_idx - eof_call > LAG:
                raw, what, acked = pdugen.raw("ACK_EOF", tc), "ack_eof", True
                ack_call = ref_idx
            elif acked and not fin and ref_idx - ack_call > LAG:
                raw, what, fin = pdugen.raw("FIN", tc), "fin", True
        call(raw, what)
        ref_idx += 1
    w.ticked = ticked
    return recs, md_raw


OPTS = {"fs_requests": 2, "overrides": 1, "flow_label": "aabbcc"}
MSGS = [["raw", "0102030405"], ["orig", 5, 2, 7, 2]]


def cfg_of(size, seg, crc, cks, idw, opts=False):
    c = {"mode": "ack", "size": size, "seg": seg, "crc": crc, "cks": cks, "src_idw": idw, "dst_idw": idw, "maxpkt": 200, "fs": "mem", "content": size % 4}
    if opts:
        # Metadata PDU with filestore requests, fault handler overrides, flow label and messages to user
        c["opts"] = dict(OPTS)
        c["msgs"] = [list(m) for m in MSGS]
    return c


_REF_CACHE: dict = {}


def reference(cfg):
    key = repr(sorted(cfg.items()))
    if key not in _REF_CACHE:
        with World(cfg) as w:
            recs, md = drive(w, {})
            _REF_CACHE[key] = ([{"ref_idx": r["ref_idx"], "sent_before": r["sent_before"], "step": r["before"][1], "out": [o[0] for o in r["out"]]} for r in recs], md)
    return _REF_CACHE[key]


def classes(p, size, seg):
    """request classes relative to progress p"""
    c = {
        "md": (0, 0),
        "inverted": (min(p, 3) + 1, min(p, 3)) if p >= 0 else (1, 0),
        "start_beyond_progress": (p + 1, p + 2),
        "end_beyond_progress": (max(0, p - 1), p + 1),
        "beyond_file": (size, size + seg),
        "far_beyond": (size + 100, size + 104),
    }
    if p > 0:
        c["whole"] = (0, p)
        c["aligned"] = (0, min(seg, p))
        c["last_byte"] = (p - 1, p)
        c["zero_len_at_progress"] = (p, p)
        c["zero_len_mid"] = (min(1, p), min(1, p))
    if p > seg:
        c["aligned2"] = (seg, min(2 * seg, p))
        c["unaligned"] = (1, min(p, seg + 2))
        c["multi_seg"] = (1, p)
    if p > 2:
        c["inner"] = (1, p - 1)
    return c


def gen_cases(tier, seed):
    cases = []
    grid = list(itertools.product((0, 3, 10, 17), (4, 5), (False, True), ("crc32", "modular"), (1, 2)))
    if tier == "quick":
        grid = [g for i, g in enumerate(grid) if g[2] == (g[0] % 2 == 1) and g[3] == ("crc32" if g[1] == 4 else "modular")] + [(10, 4, True, "crc32", 4)]
    grid = [g + (False,) for g in grid] + [(10, 4, False, "crc32", 2, True), (0, 4, True, "crc32", 1, True)]
    for size, seg, crc, cks, idw, opts in grid:
        cfg = cfg_of(size, seg, crc, cks, idw, opts)
        ref, _ = reference(cfg)
        for r in ref:
            k, p = r["ref_idx"], r["sent_before"]
            cl = classes(p, size, seg)
            for name, rq in cl.items():
                cases.append({"cfg": cfg, "naks": {k: [[list(rq)]]}, "names": [name]})
                if r["step"] == "WAITING_FOR_EOF_ACK":
                    # the same NAK handed over in the first call after the EOF's positive ACK timer expired
                    cases.append({"cfg": cfg, "naks": {k: [[list(rq)]]}, "names": [name], "tick": True})
            if tier == "thorough" or k % 3 == 1:
                for (n1, r1), (n2, r2) in itertools.permutations(cl.items(), 2):
                    cases.append({"cfg": cfg, "naks": {k: [[list(r1), list(r2)]]}, "names": [n1, n2]})
            cases.append({"cfg": cfg, "naks": {k: [[]]}, "names": ["empty"]})
    rng = random.Random(808 + seed)
    n = 1500 if tier == "quick" else 40000
    for _ in range(n):
        size = rng.choice([0, 1, 7, 16, 23, 40])
        seg = rng.choice([1, 3, 4, 8])
        if size > 20 and seg == 1:
            seg = 3
        cfg = cfg_of(size, seg, rng.random() < 0.5, rng.choice(["crc32", "crc32c", "modular", "null"]), rng.choice([1, 2, 4]), rng.random() < 0.3)
        if rng.random() < 0.3:
            cfg["scribble_pdus"] = True  # the user edits every PDU object after it has taken its bytes
        ref, _ = reference(cfg)
        naks = {}
        names = []
        for _j in range(rng.choice([1, 1, 2, 3])):
            r = rng.choice(ref)
            k, p = r["ref_idx"], r["sent_before"]
            cl = classes(p, size, seg)
            reqs = []
            for _q in range(rng.choice([0, 1, 1, 2, 3, 4])):
                if rng.random() < 0.6:
                    nm = rng.choice(sorted(cl))
                    reqs.append(list(cl[nm]))
                    names.append(nm)
                else:
                    a, b = rng.randrange(0, size + 3), rng.randrange(0, size + 3)
                    if rng.random() < 0.8 and a > b:
                        a, b = b, a
                    reqs.append([a, b])
                    names.append("random")
            naks.setdefault(k, []).append(reqs)
        cases.append({"cfg": cfg, "naks": naks, "names": names})
        if rng.random() < 0.3:
            cases[-1]["tick"] = True
    return cases


def expected_response(reqs, p, size, md_known):
    """(valid prefix to serve or None when all valid, invalid?) by the servicing model"""
    invalid = any((e < s) or (s > p) or (e > p) for s, e in reqs)
    return invalid


def match_tiling(fds, reqs, data, eff):
    """fds: list of (offset, dlen, payload); reqs: list of (s,e) valid non-(0,0) data requests in order. Returns error or None."""
    i = 0
    for s, e in reqs:
        cur = s
        while cur < e:
            if i >= len(fds):
                return f"request ({s},{e}) only served up to {cur}"
            off, ln, payload = fds[i]
            if off != cur:
                return f"request ({s},{e}): expected a File Data PDU at offset {cur}, got offset {off}"
            if ln <= 0 or ln > eff:
                return f"File Data PDU of length {ln} (segment length {eff})"
            if off + ln > e:
                return f"File Data PDU [{off},{off + ln}) reaches beyond the requested end {e}"
            if payload != data[off : off + ln]:
                return f"payload of File Data PDU [{off},{off + ln}) differs from the file"
            cur += ln
            i += 1
    if i != len(fds):
        return f"{len(fds) - i} File Data PDU(s) which no request asked for: {[(o, o + n) for o, n, _ in fds[i:]][:4]}"
    return None


def run_case(case):
    cfg = case["cfg"]
    naks_spec = {int(k): v for k, v in case["naks"].items()}
    viol, obs = [], {}
    ref, md_ref = reference(cfg)
    with World(cfg) as w:
        tc = prep.tx_conf(w)
        size, data = len(w.data), w.data
        eff = min(cfg["seg"], models.max_fd_payload(cfg["maxpkt"], cfg["src_idw"], 2, cfg["crc"]))
        naks = {k: [pdugen.raw("NAK", tc, {"scope": (0, max([e for _, e in rq] + [0])), "reqs": rq}) for rq in lst] for k, lst in naks_spec.items()}
        recs, md_raw = drive(w, naks, tick=bool(case.get("tick")))
        if getattr(w, "ticked", 0):
            obs["naks_delivered_at_eof_ack_timer_expiry"] = 1
        # split the stream
        original = []
        nak_iter = {k: list(v) for k, v in naks_spec.items()}
        reached = 0
        for idx, r in enumerate(recs):
            if r["what"] != "nak":
                continue
            reqs = [tuple(x) for x in nak_iter[r["ref_idx"]].pop(0)]
            p = r["sent_before"]
            active = r["before"][0] == "BUSY" and r["md_known"]
            if not active:
                obs["nak_before_transaction_started_or_after_end"] = obs.get("nak_before_transaction_started_or_after_end", 0) + 1
                if r["out"] and r["before"][0] == "IDLE":
                    viol.append({"clause": "pdus-emitted-for-nak-by-idle-handler", "out": [wire.short(d) for _, d in r["out"]]})
                if r["exc"] and r["exc"].startswith("INTERNAL"):
                    viol.append({"clause": "nak-raised-internal-error", "exc": r["exc"]})
                continue
            obs["naks_at_step_" + r["before"][1]] = obs.get("naks_at_step_" + r["before"][1], 0) + 1
            if r["before"][1] in ("SENDING_ACK_OF_FINISHED", "NOTICE_OF_COMPLETION"):
                # the Finished PDU was already received: the transaction is complete but for the notice of completion; outside the
                # property's quantifier (sending file data / awaiting EOF ACK / awaiting Finished).  Only harmlessness is required.
                if r["exc"] and r["exc"].startswith("INTERNAL"):
                    viol.append({"clause": "nak-raised-internal-error", "exc": r["exc"]})
                for raw, d in r["out"]:
                    if d.get("kind") == "FD" and "offset" in d and (d["dlen"] == 0 or d["offset"] + d["dlen"] > size):
                        viol.append({"clause": "file-data-outside-file", "fd": (d["offset"], d["dlen"]), "size": size})
                obs["nak_after_finished_received_not_judged"] = obs.get("nak_after_finished_received_not_judged", 0) + 1
                continue
            reached += 1
            invalid = [(s, e) for s, e in reqs if e < s or s > p or e > p]
            # retransmissions = until the next nak call / end
            nxt = next((j for j in range(idx + 1, len(recs)) if recs[j]["what"] == "nak"), len(recs))
            retrans, rest = [], []
            broken = [d for rr in recs[idx:nxt] for _, d in rr["out"] if "error" in d or d.get("kind") in (None, "?")]
            if broken:
                viol.append({"clause": "unparsable-pdu-emitted-after-nak", "pdus": [{k: v for k, v in d.items() if k != "h"} for d in broken][:3], "reqs": reqs, "progress": p})
                continue
            for rr in recs[idx:nxt]:
                for raw, d in rr["out"]:
                    k = d.get("kind")
                    if k == "MD" or (k == "FD" and d["offset"] + d["dlen"] <= p):
                        retrans.append((raw, d, rr is r))
                    else:
                        rest.append((raw, d))
            if r["exc"] and r["exc"].startswith("INTERNAL"):
                viol.append({"clause": "nak-raised-internal-error", "exc": r["exc"], "reqs": reqs, "progress": p})
                continue
            for raw, d in r["out"]:
                if d.get("kind") == "FD" and "offset" in d and (d["dlen"] == 0 or d["offset"] + d["dlen"] > min(p, size)):
                    viol.append({"clause": "file-data-outside-data-sent-so-far", "fd": (d["offset"], d["dlen"]), "progress": p, "size": size, "reqs": reqs})
            if invalid:
                obs["naks_with_invalid_request"] = obs.get("naks_with_invalid_request", 0) + 1
                if r["exc"] is None:
                    viol.append({"clause": "invalid-request-not-rejected", "reqs": reqs, "invalid": invalid, "progress": p, "step": r["before"][1],
                                 "out": [wire.short(d) for _, d in r["out"]]})
                    continue
                obs["rejected_as_" + r["exc"]] = obs.get("rejected_as_" + r["exc"], 0) + 1
                # valid requests preceding the first invalid one may have been served
                first_bad = next(i for i, rq in enumerate(reqs) if rq in invalid)
                allowed = reqs[:first_bad]
                err = judge_response(retrans, allowed, data, eff, md_ref, prefix_ok=True)
                if err:
                    viol.append({"clause": "data-emitted-for-rejected-nak", "detail": err, "reqs": reqs, "progress": p})
            else:
                obs["naks_all_valid"] = obs.get("naks_all_valid", 0) + 1
                if r["exc"] is not None:
                    viol.append({"clause": "valid-nak-rejected", "exc": r["exc"], "reqs": reqs, "progress": p, "step": r["before"][1]})
                    continue
                err = judge_response(retrans, reqs, data, eff, md_ref, prefix_ok=False)
                if err:
                    viol.append({"clause": "retransmission-differs-from-requests", "detail": err, "reqs": reqs, "progress": p, "step": r["before"][1],
                                 "got": [wire.short(d) for _, d, _ in retrans][:12]})
                else:
                    obs["responses_checked"] = obs.get("responses_checked", 0) + 1
                    obs["retransmitted_pdus"] = obs.get("retransmitted_pdus", 0) + len(retrans)
                    if any(rq == (0, 0) for rq in reqs):
                        obs["metadata_retransmissions_checked"] = obs.get("metadata_retransmissions_checked", 0) + 1
                    if any(not in_call for _, _, in_call in retrans):
                        obs["retransmissions_spread_over_calls"] = obs.get("retransmissions_spread_over_calls", 0) + 1
        # original stream = everything that is not a retransmission, compared with the reference run
        nak_points = [i for i, r in enumerate(recs) if r["what"] == "nak" and r["before"][0] == "BUSY" and r["md_known"]]
        for i, r in enumerate(recs):
            # progress at the most recent active NAK (retransmissions are at or below it)
            prev = [j for j in nak_points if j <= i]
            p = recs[prev[-1]]["sent_before"] if prev else None
            for raw, d in r["out"]:
                k = d.get("kind")
                if p is not None and (k == "MD" or (k == "FD" and "offset" in d and d["offset"] + d["dlen"] <= p)):
                    continue
                original.append(raw)
        ref_stream = [raw for r in ref for raw in r["out"]]
        if getattr(w, "ticked", 0):
            # the expired timer re-sends the EOF PDU once (same bytes): not part of the reference stream
            eofs = [i for i, x in enumerate(original) if wire.kind_of(x) == "EOF"]
            if len(eofs) == 2 and original[eofs[0]] == original[eofs[1]]:
                del original[eofs[1]]
                obs["eof_resend_next_to_retransmission"] = 1
            elif len(eofs) == 1:
                # the ACK (EOF) arrived in the first call which looked at the timer (a refused NAK does not): no re-send
                obs["eof_ack_arrived_before_timer_was_checked"] = 1
            else:
                viol.append({"clause": "eof-not-re-sent-once-unchanged-at-timer-expiry", "eofs": [wire.short(wire.describe(original[i])) for i in eofs]})
        if original != ref_stream:
            j = next((i for i, (a, b) in enumerate(zip(original, ref_stream)) if a != b), min(len(original), len(ref_stream)))
            viol.append({"clause": "original-stream-differs-from-reference-run", "first_difference_at_pdu": j,
                         "got": [wire.short(wire.describe(x)) for x in original[max(0, j - 1) : j + 3]],
                         "want": [wire.short(wire.describe(x)) for x in ref_stream[max(0, j - 1) : j + 3]],
                         "got_len": len(original), "want_len": len(ref_stream)})
        else:
            obs["original_streams_equal_to_reference"] = 1
        if w.S.h.state.name != "IDLE":
            viol.append({"clause": "sender-not-idle-at-end", "step": w.S.h.step.name})
        for v in viol:
            v["cfg"] = {k: cfg[k] for k in ("size", "seg", "crc", "cks", "src_idw")}
            v["metadata_options"] = bool(cfg.get("opts"))
            v["naks"] = case["naks"]
        if cfg.get("opts") and obs.get("metadata_retransmissions_checked"):
            obs["metadata_with_options_retransmissions_checked"] = obs["metadata_retransmissions_checked"]
        sig = case if reached else None
        sample = None
        if reached and any(n in ("unaligned", "multi_seg") for n in case["names"]):
            sample = {"naks": case["naks"], "stream": [("NAK-> " if r["what"] == "nak" else "") + " ".join(wire.short(d) for _, d in r["out"]) + (f" !{r['exc']}" if r["exc"] else "") for r in recs][:30]}
        for nm in case["names"]:
            obs["class_" + nm] = obs.get("class_" + nm, 0) + 1
        return {"viol": viol, "obs": obs, "sig": sig, "sample": sample}


def judge_response(retrans, reqs, data, eff, md_ref, prefix_ok):
    """retrans: [(raw, d, in_nak_call)] in emission order; must equal, request by request, MD for (0,0) and a tiling otherwise."""
    i = 0
    items = [(raw, d) for raw, d, _ in retrans]
    for s, e in reqs:
        if (s, e) == (0, 0):
            if i >= len(items):
                return None if prefix_ok else "metadata request (0,0) not answered"
            raw, d = items[i]
            if d.get("kind") != "MD":
                return None if prefix_ok else f"metadata request (0,0) answered by {wire.short(d)}"
            if raw != md_ref:
                return "re-sent Metadata PDU differs from the original Metadata PDU"
            i += 1
            continue
        cur = s
        while cur < e:
            if i >= len(items):
                return None if prefix_ok else f"request ({s},{e}) only served up to {cur}"
            raw, d = items[i]
            if d.get("kind") != "FD":
                return f"request ({s},{e}): expected File Data at {cur}, got {wire.short(d)}"
            off, ln = d["offset"], d["dlen"]
            if off != cur:
                return f"request ({s},{e}): expected a File Data PDU at offset {cur}, got [{off},{off + ln})"
            if ln <= 0 or ln > eff:
                return f"File Data PDU of length {ln} (segment length {eff})"
            if off + ln > e:
                return f"File Data PDU [{off},{off + ln}) reaches beyond the requested end {e}"
            if d["data"] != data[off : off + ln]:
                return f"payload of File Data PDU [{off},{off + ln}) differs from the file"
            cur += ln
            i += 1
    if i != len(items):
        return f"{len(items) - i} PDU(s) which no request asked for: {[wire.short(d) for _, d in items[i:]][:4]}"
    return None


REQUIRED = {"naks_delivered_at_eof_ack_timer_expiry": 100, "eof_resend_next_to_retransmission": 50, "responses_checked": 200, "metadata_retransmissions_checked": 20, "metadata_with_options_retransmissions_checked": 10, "naks_with_invalid_request": 100, "naks_at_step_SENDING_FILE_DATA": 50,
            "naks_at_step_WAITING_FOR_EOF_ACK": 50, "naks_at_step_WAITING_FOR_FINISHED": 50, "original_streams_equal_to_reference": 200}
