"""C15 - user indications are faithful, causally ordered and gated by configuration."""
from __future__ import annotations

import random

from .. import wire
from ..msgs import build_msgs
from ..oracles import C01Monitor, trace_summary
from ..world import InternalError, Plan, RandomPlan, Runner, World

PROP = "C15"
LEVEL = "exploration"
TECHNIQUE = "runtime monitoring of the real handler pair with recording user objects under all 2^4 indication switch settings, random transfers (nominal, lossy, cancelled by either side) and generated message-to-user lists (incl. reserved CFDP messages): an offline checker over the recorded, globally ordered event log relates every indication to the PDU delivered/emitted and the filestore effects of the same API call (gating, completeness, parameters decoded independently from the PDU bytes, Finished-PDU vs. Transaction-Finished codes) and checks the causal order per transaction"
RULE = (
    "a case = (configuration: mode x closure x size x segment length x NAK mode, the 4 implemented indication switches (each of the 16 settings equally often), "
    "message-to-user list drawn from {none, raw messages, originating transaction id, proxy put request, proxy put response and combinations}, other Metadata "
    "options, fault schedule (none or random drop/dup/delay), optional cancel request at either side at a random round, metadata-only requests).  Non-trivial = at "
    "least 3 indications were judged; distinct = distinct cases"
)
ASSUMPTIONS = [
    "events relate to the API call in which they occur: 'accepted' File Data = the call returned and wrote that range; 'accepted' Metadata = delivered to an idle receiver or one waiting for Metadata, call returned; the first EOF delivered for a transaction must be indicated",
    "arrival-order effects of a reordering link (EOF-Recv before a late File-Segment-Recv) are legal and not flagged",
    "Transaction-Finished may be issued again when a later fault changes the completion (e.g. positive ACK limit on the Finished PDU); each Finished PDU is compared with the most recent indication before its retrieval",
    "an abandoned transaction ends silently (C14) and needs no Transaction-Finished",
]
MSG_SETS = [
    None, [], [["raw", "0102030405"]], [["raw", "aa"], ["raw", "bbccdd"]],
    [["orig", 5, 2, 7, 2]], [["orig", 9, 1, 3, 4], ["raw", "00"]],
    [["orig", 5, 2, 7, 2], ["proxy_put_response", "NO_ERROR", "DATA_COMPLETE", "FILE_RETAINED"]],
    [["proxy_put_response", "FILE_CHECKSUM_FAILURE", "DATA_INCOMPLETE", "FILE_RETAINED"]],
    [["proxy_put_response", "NO_ERROR", "DATA_COMPLETE", "FILE_RETAINED"], ["orig", 5, 2, 7, 2]],
    [["raw", "01"], ["orig", 6, 4, 1, 1], ["raw", "02"], ["proxy_put_response", "NO_ERROR", "DATA_COMPLETE", "FILE_RETAINED"], ["raw", "03"]],
    [["proxy_put_request", 3, "remote/src.bin", "local/dst.bin"]],
    [["proxy_put_request", 3, "a", "b"], ["orig", 1, 2, 2, 2]],
    # binary messages (not UTF-8), also longer than the reserved prefix, next to a reserved one
    [["raw", "80818283848586"], ["raw", "fffefdfcfb"]],
    [["raw", "c3283132333435"], ["orig", 5, 2, 7, 2], ["raw", "e28228e28228"]],
]


def gen_cases(tier, seed):
    n = 9600 if tier == "quick" else 160000
    rng = random.Random(1500 + seed)
    cases = []
    for i in range(n):
        sw = [bool((i >> b) & 1) for b in range(4)]
        seg = rng.choice([3, 4, 8])
        cfg = {"mode": rng.choice(["ack", "unack"]), "closure": rng.random() < 0.5, "imm_nak": rng.random() < 0.5, "seg": seg,
               "size": rng.choice([0, 1, seg, 3 * seg + 1, 6 * seg]), "ind": sw, "msgs": rng.choice(MSG_SETS), "cks": rng.choice(["crc32", "crc32c", "modular", "null"]),
               "ack_limit": 3, "nak_limit": 3, "check_limit": 2, "disp": rng.random() < 0.3, "crc": rng.random() < 0.2,
               "opts": rng.choice([None, None, {"fs_requests": 1}, {"overrides": 2, "flow_label": "0a0b"}]),
               "metadata_only": rng.random() < 0.08, "dest": rng.choice(["file", "dir"])}
        faults = rng.choice([None, None, 0.1, 0.25])
        cancel = None if rng.random() < 0.7 else [rng.choice("SD"), rng.randrange(1, 12)]
        if rng.random() < 0.1:
            cfg.update({"src_name": "übergröße 文件.bin", "dst_name": "зона 51 ☃.dat"})  # names with non-ASCII characters and blanks
        cfg["scribble_user"] = rng.random() < 0.3  # the user overwrites the attributes of the parameter objects it was handed
        cases.append({"cfg": cfg, "faults": faults, "cancel": cancel, "seed": seed * 1_000_003 + i, "prior": rng.choice([None, None, None, "completed", "cancelled"]), "refused_first": rng.choice([None, None, None, "missing", "unknown_dest", "long_name"]),
                      "pacing": rng.choice([None, None, {"src_calls": 3}, {"src_calls": 6}, {"dst_calls": 3}, {"src_calls": 2, "dst_calls": 2}, {"dst_idle": 2}, {"src_idle": 2, "dst_calls": 2}])})
    # every single and double loss of a small acknowledged transfer (EOF or File Data as first PDU at the receiver, late Metadata, ...),
    # all switches on
    for size in (1, 5):
        for imm in (True, False):
            base = {"mode": "ack", "closure": False, "imm_nak": imm, "seg": 4, "size": size, "ind": [True, True, True, True], "msgs": None, "cks": "crc32",
                    "ack_limit": 4, "nak_limit": 4}
            n = 5 if size == 1 else 7
            for a in range(n):
                cases.append({"cfg": base, "faults": None, "cancel": None, "seed": 0, "drops": [a]})
                for b in range(a + 1, n + 1):
                    cases.append({"cfg": base, "faults": None, "cancel": None, "seed": 0, "drops": [a, b]})
    # one kind of PDU never arrives (every copy lost): the retry procedure which waits for it runs into its limit, the transaction is
    # cancelled / abandoned by the timers - every further completion needs its own, matching Transaction-Finished
    for kind, mode, closure in (("ACK_FIN", "ack", False), ("ACK_EOF", "ack", False), ("FIN", "ack", False), ("FIN", "unack", True), ("NAK", "ack", False), ("EOF", "ack", False)):
        for limit in (1, 2, 3):
            for ind in ([True, True, True, True], [False, True, False, True], [True, False, True, False]):
                base = {"mode": mode, "closure": closure, "imm_nak": limit % 2 == 0, "seg": 4, "size": 9, "ind": ind, "msgs": None, "cks": "crc32",
                        "ack_limit": limit, "nak_limit": limit, "check_limit": limit}
                cases.append({"cfg": base, "faults": None, "cancel": None, "seed": 0, "silence_kind": kind, "drop_fd": kind == "NAK"})
    for mode in ("ack", "unack"):
        for off in (0, 4, 8):
            for sw2 in (True, False):
                cases.append({"t": "empty_fd", "mode": mode, "off": off, "ind": [True, True, sw2, True], "cancel": None, "cfg": {"msgs": None}})
    return cases


def msgs_of_md(d):
    """message to user TLVs (type 0x02) of a Metadata PDU, packed, in order - decoded independently from the option bytes"""
    out = []
    for hx in d.get("options") or []:
        b = bytes.fromhex(hx)
        if b and b[0] == 0x02:
            out.append(b)
    return out


def judge(w: World, case, obs):
    viol = []
    evs = w.log.events
    sw = w.cfg["ind"]
    judged = 0

    def v(clause, **kw):
        viol.append(dict(clause=clause, **kw))

    # ---- split into calls ------------------------------------------------------------------------
    calls = []
    cur = None
    last_rx = {"S": None, "D": None}
    for e in evs:
        k = e["kind"]
        if k == "rx":
            last_rx[e["side"]] = e
        elif k == "call":
            cur = {"side": e["side"], "api": e["api"], "before": e["before"], "events": [], "rx": None, "ret": None}
            if e["api"] == "state_machine" and e["arg"] is not None:
                cur["rx"] = last_rx[e["side"]]
            calls.append(cur)
        elif k in ("ret", "exc") and cur is not None and e.get("call_seq") is not None:
            cur["ret"] = e
            cur["events"].append(e)
        elif cur is not None:
            cur["events"].append(e)
    # ---- gating ------------------------------------------------------------------------------------
    gate = {"ind_eof_sent": sw[0], "ind_eof_recv": sw[1], "ind_file_segment_recv": sw[2], "ind_finished": sw[3]}
    for e in evs:
        if e["kind"] in gate:
            judged += 1
            if not gate[e["kind"]]:
                v("disabled-indication-delivered", indication=e["kind"], side=e["side"])
    # unimplemented / foreign-side indications must not appear at all
    for e in evs:
        if (e["kind"] in ("ind_eof_sent", "ind_transaction") and e["side"] != "S") or (e["kind"] in ("ind_eof_recv", "ind_file_segment_recv", "ind_metadata_recv") and e["side"] != "D"):
            v("indication-on-wrong-side", indication=e["kind"], side=e["side"])
    # ---- per call checks -----------------------------------------------------------------------------
    tid_s = None  # (src, seq) of the sender's transaction, learnt from the PDUs it emits
    d_md_known = False
    d_first_eof_done = False
    d_tid = None
    for c in calls:
        side, ce = c["side"], c["events"]
        inds = [e for e in ce if e["kind"].startswith("ind_") and e["side"] == side]
        returned = c["ret"] is not None and c["ret"]["kind"] == "ret"
        enq = [e for e in ce if e["kind"] == "enq" and e["side"] == side and e["raw"]]
        enqd = [(e, wire.describe(e["raw"])) for e in enq]
        if side == "S":
            # Transaction indication: first, before any PDU of the transaction
            for e, d in enqd:
                if d.get("h") and tid_s is None:
                    tid_s = (d["h"]["src"], d["h"]["seq"], d["h"]["idw"], d["h"]["seqw"])
                    tr = [x for x in evs if x["kind"] == "ind_transaction" and x["side"] == "S" and x["seq"] < e["seq"]]
                    if not tr:
                        v("no-transaction-indication-before-first-pdu")
                    else:
                        judged += 1
                        t = tr[-1]["tid"]
                        if (t[0], t[2]) != (tid_s[0], tid_s[1]) or t[3] != tid_s[3]:
                            v("transaction-indication-id-differs-from-pdus", indication=t, pdu=tid_s)
                        earlier = [x["kind"] for x in evs if x["kind"].startswith("ind_") and x["side"] == "S" and x["seq"] < tr[-1]["seq"]]
                        if earlier:
                            v("indication-before-transaction-indication", indications=earlier)
                        want_orig = expected_originating(w.cfg["msgs"])
                        if tr[-1]["orig"] != want_orig:
                            v("originating-transaction-id", got=tr[-1]["orig"], want=want_orig, msgs=w.cfg["msgs"])
                        elif w.cfg["msgs"]:
                            obs["originating_id_rule_checked"] = obs.get("originating_id_rule_checked", 0) + 1
            # EOF-Sent <-> EOF PDUs of this call
            n_eof = sum(1 for _, d in enqd if d.get("kind") == "EOF")
            n_ind = sum(1 for e in inds if e["kind"] == "ind_eof_sent")
            if sw[0]:
                if n_eof and not n_ind:
                    v("eof-pdu-emitted-without-eof-sent-indication", eofs=n_eof)
                if n_ind > n_eof:
                    v("eof-sent-indication-without-eof-pdu", indications=n_ind, eofs=n_eof)
                if n_eof:
                    obs["eof_sent_checked"] = obs.get("eof_sent_checked", 0) + 1
            for e in inds:
                if e["kind"] == "ind_eof_sent" and tid_s and (e["tid"][0], e["tid"][2]) != (tid_s[0], tid_s[1]):
                    v("eof-sent-transaction-id", got=e["tid"], want=tid_s)
        else:
            rx = c["rx"]
            d = rx["d"] if rx is not None else None
            kind = d.get("kind") if d else None
            if d is not None and d.get("h"):
                d_tid = (d["h"]["src"], d["h"]["seq"])
            before_state, before_step = c["before"][0], c["before"][1]
            names = [e["kind"] for e in inds]
            # every receiver indication belongs to the PDU kind delivered in this call
            for nm, need in (("ind_metadata_recv", "MD"), ("ind_file_segment_recv", "FD"), ("ind_eof_recv", "EOF")):
                if nm in names and kind != need:
                    v("indication-without-corresponding-pdu", indication=nm, delivered=kind)
            for e in inds:
                if d_tid and e.get("tid") is not None and (e["tid"][0], e["tid"][2]) != d_tid and e["kind"] != "ind_finished":
                    v("indication-transaction-id-differs-from-pdu", indication=e["kind"], got=e["tid"], pdu=d_tid)
            if kind == "MD" and returned and (before_state == "IDLE" or before_step == "WAITING_FOR_METADATA"):
                mi = [e for e in inds if e["kind"] == "ind_metadata_recv"]
                if len(mi) != 1:
                    v("metadata-accepted-without-exactly-one-metadata-recv", n=len(mi), step=before_step)
                else:
                    judged += 1
                    e = mi[0]
                    md_only = d.get("src_name") is None
                    want = {"source_file_name": d["src_name"], "dest_file_name": d["dst_name"], "file_size": None if md_only else d["size"],
                            "source_id": (d["h"]["src"], d["h"]["idw"])}
                    got = {k: e[k] for k in want}
                    if got != want:
                        v("metadata-recv-parameters-differ-from-pdu", got=got, want=want)
                    want_msgs = msgs_of_md(d)
                    got_msgs = e["msgs"]
                    if (got_msgs or []) != want_msgs or (got_msgs is None and d.get("options") not in (None, [])):
                        v("metadata-recv-messages-to-user-differ-from-pdu", got=None if got_msgs is None else [m.hex() for m in got_msgs], want=[m.hex() for m in want_msgs])
                    elif want_msgs:
                        obs["messages_to_user_checked"] = obs.get("messages_to_user_checked", 0) + 1
                    obs["metadata_recv_checked"] = obs.get("metadata_recv_checked", 0) + 1
            if "ind_metadata_recv" in names:
                if d_md_known:
                    v("second-metadata-recv-for-one-transaction", step=before_step)
                d_md_known = True
            if kind == "FD":
                wrote = [(x["offset"] or 0, x["length"]) for x in ce if x["kind"] == "fs" and x["side"] == "D" and x.get("op") == "write_data" and x.get("outcome") == "ok"]
                si = [(e["offset"], e["length"]) for e in inds if e["kind"] == "ind_file_segment_recv"]
                pdu_seg = (d["offset"], d["dlen"])
                if returned and wrote and sw[2]:
                    if si != [pdu_seg]:
                        v("file-data-accepted-without-matching-file-segment-recv", indications=si, pdu=pdu_seg)
                    else:
                        judged += 1
                        obs["file_segment_recv_checked"] = obs.get("file_segment_recv_checked", 0) + 1
                for s_ in si:
                    if s_ != pdu_seg:
                        v("file-segment-recv-parameters-differ-from-pdu", indication=s_, pdu=pdu_seg)
                if si and not d_md_known:
                    v("file-segment-recv-before-metadata-recv", pdu=pdu_seg)
            receiving = before_step in ("RECEIVING_FILE_DATA", "WAITING_FOR_METADATA") or (before_state == "IDLE" and w.cfg_effective_mode_ack())
            if kind == "EOF" and returned and not d_first_eof_done and receiving:
                d_first_eof_done = True
                if sw[1]:
                    if "ind_eof_recv" not in names:
                        v("first-eof-accepted-without-eof-recv", step=before_step, eof=wire.short(d))
                    else:
                        judged += 1
                        obs["eof_recv_checked"] = obs.get("eof_recv_checked", 0) + 1
    # ---- Transaction-Finished vs Finished PDU, completion --------------------------------------------
    last_fin_ind = None
    for e in evs:
        if e["side"] != "D":
            continue
        if e["kind"] == "ind_finished":
            last_fin_ind = e
        elif e["kind"] == "tx" and e["d"].get("kind") == "FIN":
            d = e["d"]
            if sw[3]:
                if last_fin_ind is None:
                    v("finished-pdu-emitted-without-transaction-finished-indication", pdu=wire.short(d))
                else:
                    judged += 1
                    got = tuple(last_fin_ind["fin"][:3])
                    want = (d.get("cond"), d.get("delivery"), d.get("fstatus"))
                    if got != want:
                        v("transaction-finished-differs-from-finished-pdu", indication=got, pdu=want)
                    else:
                        obs["finished_pdu_vs_indication_checked"] = obs.get("finished_pdu_vs_indication_checked", 0) + 1
                    if d.get("h") and (last_fin_ind["tid"][0], last_fin_ind["tid"][2]) != (d["h"]["src"], d["h"]["seq"]):
                        v("transaction-finished-id-differs-from-finished-pdu", indication=last_fin_ind["tid"])
    # completion without indication: a handler that returns to idle after a transaction (not abandoned) must have indicated it
    abandoned = {e["side"] for e in evs if e["kind"] == "fh" and e["which"] == "abandon"}
    for side in ("S", "D"):
        if not sw[3] or side in abandoned:
            continue
        started = any(e["kind"] == "tx" and e["side"] == "S" for e in evs) if side == "S" else any(
            e["kind"] == "ret" and e["side"] == "D" and e["after"][0] == "BUSY" for e in evs)
        ep = w.S if side == "S" else w.D
        reset_by_user = any(e["kind"] == "call" and e["side"] == side and e["api"] == "reset" for e in evs)
        if started and ep.h.state.name == "IDLE" and not reset_by_user:
            fins = [e for e in evs if e["kind"] == "ind_finished" and e["side"] == side]
            if not fins:
                v("transaction-completed-without-transaction-finished-indication", side=side, mode=w.cfg["mode"], closure=w.cfg["closure"])
            else:
                obs["completion_indicated_" + side] = obs.get("completion_indicated_" + side, 0) + 1
    # ---- order per transaction -------------------------------------------------------------------------
    for side in ("S", "D"):
        seq = [(e["kind"], e["seq"]) for e in evs if e["kind"].startswith("ind_") and e["side"] == side and e["kind"] not in ("ind_fault", "ind_abandoned")]
        names = [k for k, _ in seq]
        if "ind_finished" in names:
            first_fin = names.index("ind_finished")
            after = [k for k in names[first_fin + 1 :] if k != "ind_finished"]
            if after:
                v("indication-after-transaction-finished", side=side, indications=after)
            # one completion = one indication: the same Transaction-Finished (same transaction, same parameters) is not delivered twice
            # (a later fault, e.g. the positive ACK limit of the Finished PDU, may end the transaction again with another condition)
            fins_here = [(tuple(e["tid"]) if e.get("tid") else None, tuple(e["fin"][:3])) for e in evs if e["kind"] == "ind_finished" and e["side"] == side]
            if len(set(fins_here)) != len(fins_here):
                v("transaction-finished-delivered-twice-for-one-completion", side=side, indications=[f[1] for f in fins_here])
            if side == "S":
                if "ind_transaction" in names and names.index("ind_transaction") > first_fin:
                    v("transaction-finished-before-transaction-indication")
        if side == "S" and "ind_eof_sent" in names and "ind_transaction" in names and names.index("ind_eof_sent") < names.index("ind_transaction"):
            v("eof-sent-before-transaction-indication")
    return viol, judged


def expected_originating(msgs_spec):
    """tid key of the originating transaction id message iff present and no proxy put response"""
    if not msgs_spec:
        return None
    orig = None
    resp = False
    for m in msgs_spec:
        if m[0] == "orig":
            orig = (m[1], m[2], m[3], m[4])
        if m[0] == "proxy_put_response":
            resp = True
    return None if resp else orig


def run_empty_fd(case):
    """A File Data PDU without payload (legal on the wire, not parsable by the dependency's unpack, so handed over as an object): it is
    accepted like any other segment and must be indicated with length 0."""
    from spacepackets.cfdp.pdu import FileDataPdu
    from spacepackets.cfdp.pdu.file_data import FileDataParams

    from .. import models, pdugen, prep

    obs = {"empty_file_data_cases": 1}
    cfg = {"mode": case["mode"], "closure": False, "size": 8, "seg": 4, "ind": case["ind"], "fs": "mem"}
    with World(cfg) as w:
        D = w.D
        tc = prep.tx_conf(w)
        data = w.data

        def deliver(kind, raw=None, obj=None, off=0, ln=0):
            pdu = wire.parse(raw) if raw is not None else obj
            d = wire.describe(raw) if raw is not None else {"kind": "FD", "offset": off, "dlen": ln, "data": b"", "h": wire.hdr(bytes(pdugen.raw("FD", tc, {"offset": 0, "data": b"x"})))}
            w.log.add("rx", "D", d=d, raw=raw)
            try:
                D.sm(pdu, {"kind": kind})
            except Exception as e:  # noqa: BLE001
                obs["empty_file_data_refused"] = 1
            D.outbox.clear()

        deliver("MD", pdugen.raw("MD", tc, {"size": 8, "cks": "crc32", "src_name": w.src_path.as_posix(), "dst_name": w.dst_req_path.as_posix()}))
        deliver("FD", pdugen.raw("FD", tc, {"offset": 0, "data": data[0:4]}))
        deliver("FD", obj=FileDataPdu(tc, FileDataParams(file_data=b"", offset=case["off"], segment_metadata=None)), off=case["off"], ln=0)
        deliver("FD", pdugen.raw("FD", tc, {"offset": 4, "data": data[4:8]}))
        deliver("EOF", pdugen.raw("EOF", tc, {"size": 8, "cksum": models.checksum("crc32", data)}))
        for _ in range(3):
            D.sm()
            D.outbox.clear()
        viol, judged = judge(w, case, obs)
        obs["indications_judged"] = judged
        for x in viol:
            x["cfg"] = {"mode": case["mode"], "ind": case["ind"], "empty_file_data_at": case["off"]}
        return {"viol": viol, "obs": obs, "sig": case, "sample": None}


class SilenceKind(Plan):
    """every copy of one kind of PDU is lost (for NAK: also the first copy of the File Data PDU at offset 4, so that there is something to ask for)"""

    def __init__(self, kind, drop_fd):
        super().__init__()
        self.kind, self.drop_fd = kind, drop_fd

    def on_emit(self, idx, item):
        d = item["d"]
        if d.get("kind") == self.kind or (self.drop_fd and d.get("kind") == "FD" and d.get("offset") == 4 and not any(a[1] == "drop-fd" for a in self.applied)):
            self.applied.append((idx, "drop-fd" if d.get("kind") == "FD" else "drop", wire.short(d), item["side"]))
            return []
        return [("now", item["raw"])]


def run_case(case):
    if case.get("t") == "empty_fd":
        return run_empty_fd(case)
    cfg = case["cfg"]
    obs = {}
    with World(cfg) as w:
        mon = C01Monitor(w)
        plan = None
        if case.get("drops"):
            from ..world import EnumPlan

            plan = EnumPlan({str(i): "drop" for i in case["drops"]})
            obs["enumerated_loss_runs"] = 1
        if case.get("silence_kind"):
            plan = SilenceKind(case["silence_kind"], case.get("drop_fd"))
            obs["runs_with_one_pdu_kind_never_arriving"] = 1
        if case["faults"]:
            sc = case["faults"]
            plan = RandomPlan(case["seed"], {"drop": 0.3 * sc, "dup": 0.2 * sc, "delay": 0.3 * sc, "late": 0.05 * sc})
        actions = {}
        if case["cancel"]:
            actions[case["cancel"][1]] = [("cancel", case["cancel"][0])]
        r = Runner(w, plan=plan, max_expiries=30, max_rounds=2500, actions=actions, pacing=case.get("pacing"))
        try:
            if case.get("prior"):
                # the handlers already served a transaction, under the *opposite* indication switches; the user then re-configures them
                for ep in (w.S, w.D):
                    ic = ep.h.cfg.indication_cfg
                    ic.eof_sent_indication_required, ic.eof_recv_indication_required = not cfg["ind"][0], not cfg["ind"][1]
                    ic.file_segment_recvd_indication_required, ic.transaction_finished_indication_required = not cfg["ind"][2], not cfg["ind"][3]
                pr = Runner(w, max_expiries=30, max_rounds=2500, actions={} if case["prior"] == "completed" else {3: [("cancel", "S")]})
                judged_msgs = w.cfg["msgs"]
                w.cfg["msgs"] = [["orig", 77, 2, 88, 2], ["raw", "70726576"]]  # the earlier request carried its own messages to user
                w.put()
                w.cfg["msgs"] = judged_msgs
                pr.run()
                for ep in (w.S, w.D):
                    if ep.h.state.name != "IDLE":
                        ep.reset()
                        ep.drain()
                    ep.outbox.clear()
                    ic = ep.h.cfg.indication_cfg
                    ic.eof_sent_indication_required, ic.eof_recv_indication_required = cfg["ind"][0], cfg["ind"][1]
                    ic.file_segment_recvd_indication_required, ic.transaction_finished_indication_required = cfg["ind"][2], cfg["ind"][3]
                w.log.events = []  # the offline checker below judges the second transaction only
                obs["judged_on_reused_handlers"] = 1
            if case.get("refused_first"):
                # a put request with messages of its own (an originating transaction id among them) is refused with the documented error
                # (missing source file / unknown destination / over-long name) right before the judged request is handed in
                from spacepackets.util import ByteFieldGenerator

                from cfdppy.request import PutRequest

                from ..msgs import build_msgs

                kind = case["refused_first"]
                bad_msgs = build_msgs([["orig", 91, 2, 4711, 2], ["raw", "726566757365"]])
                bad = {"missing": PutRequest(w.dst_id, w.root / "srcdir" / "no-such-file.bin", w.dst_req_path, None, None, msgs_to_user=bad_msgs),
                       "unknown_dest": PutRequest(ByteFieldGenerator.from_int(2, 99), w.src_path, w.dst_req_path, None, None, msgs_to_user=bad_msgs),
                       "long_name": PutRequest(w.dst_id, w.src_path, w.root / "dstdir" / ("m" * 300), None, None, msgs_to_user=bad_msgs)}[kind]
                try:
                    w.S.put(bad)
                    obs["request_meant_to_be_refused_was_accepted"] = 1
                except Exception:  # noqa: BLE001  (which error is raised is C19's / C10's subject)
                    obs["refused_requests_with_messages_before_the_judged_one"] = 1
                w.log.events = [e for e in w.log.events if e["kind"] not in ("call", "exc")] if not case.get("prior") else []
            w.put()
            outcome = r.run()
        except InternalError as e:
            outcome = "internal-error"
            obs["internal_errors_not_judged_here"] = 1
        viol, judged = judge(w, case, obs)
        viol += mon.viol
        obs["indications_judged"] = judged
        obs["outcome_" + outcome] = 1
        obs["switch_setting_%d" % sum(1 << i for i, b in enumerate(cfg["ind"]) if b)] = 1
        if case["cancel"] and any(e["kind"] == "action" and e["res"] is True for e in w.log.events):
            obs["cancelled_runs"] = 1
        if plan is not None and plan.applied:
            obs["faulty_runs"] = 1
        for x in viol:
            x["cfg"] = {k: cfg.get(k) for k in ("mode", "closure", "size", "seg", "ind", "msgs", "metadata_only", "imm_nak")}
            x["cancel"] = case["cancel"]
            x["trace"] = trace_summary(w, r, 60)
        sig = case if judged >= 3 else None
        sample = None
        if judged >= 6 and cfg["msgs"]:
            sample = {"switches": cfg["ind"], "msgs": cfg["msgs"], "indications": [(e["side"], e["kind"]) for e in w.log.events if e["kind"].startswith("ind_")][:20]}
        return {"viol": viol, "obs": obs, "sig": sig, "sample": sample}


def finalize(ctx):
    inc = []
    missing = [i for i in range(16) if not ctx["obs"].get("switch_setting_%d" % i)]
    if missing:
        inc.append(f"indication switch settings never run: {missing}")
    return [], inc


REQUIRED = {"refused_requests_with_messages_before_the_judged_one": 300, "indications_judged": 5000, "metadata_recv_checked": 500, "file_segment_recv_checked": 500, "eof_recv_checked": 300, "eof_sent_checked": 300,
            "runs_with_one_pdu_kind_never_arriving": 40, "finished_pdu_vs_indication_checked": 200, "messages_to_user_checked": 100, "originating_id_rule_checked": 100, "cancelled_runs": 100, "faulty_runs": 100,
            "completion_indicated_S": 200, "completion_indicated_D": 200, "judged_on_reused_handlers": 200, "enumerated_loss_runs": 50}
