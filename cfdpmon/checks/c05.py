"""C05 - the destination file equals the write-model of the accepted File Data PDUs."""
from __future__ import annotations

import random
from pathlib import Path

from .. import models, pdugen, prep, vclock, wire
from ..world import PROTO_EXC, World

PROP = "C05"
LEVEL = "exploration"
TECHNIQUE = "runtime monitoring of the real DestHandler on the real NativeFilestore inside a sandbox directory with decoy files: after every API call the complete directory tree (path -> bytes) is compared with a sparse-file write model fed by the same-call Metadata-Recv / File-Segment-Recv / Transaction-Finished events, and every mutating call logged by the recording filestore proxy must address the resolved destination path"
RULE = (
    "a case = a seeded history of 1-4 consecutive transactions on one receiver: per transaction mode x closure x destination shape {file, directory, existing file, "
    "directory holding a same-named file} x disposition-on-cancellation, then 3-30 steps drawn from {Metadata (also duplicated / late), File Data with arbitrary offset/"
    "length (overlaps, duplicates, gaps, beyond EOF size), EOF no-error with right or wrong checksum / EOF cancel with any size, ACK(Finished), timer expiry, cancel "
    "request, idle call}.  Non-trivial = at least one accepted File Data PDU was applied to the model and compared; distinct = distinct histories"
)
ASSUMPTIONS = [
    "'accepted' File Data / Metadata = the PDU whose state_machine call returned and for which the (always enabled) File-Segment-Recv / Metadata-Recv indication was issued in that call; the faithfulness of those indications is C15's subject",
    "a call aborted by a non-protocol exception is C10's finding: its tree is not judged and the model is re-synchronised",
    "incomplete files are removed only on a cancelled completion with disposition-on-cancellation configured and Metadata received (C12's clause, mirrored here)",
    "the honest filestore never rejects an operation here (rejections are C01/C14 workloads)",
]


def gen_cases(tier, seed):
    n = 2500 if tier == "quick" else 60000
    cases = [{"seed": seed * 1_000_003 + i} for i in range(n)]
    # a File Data PDU without payload (legal on the wire; the dependency cannot parse it from bytes, so it is handed over as an object):
    # whatever its offset, the destination file does not change
    for mode in ("ack", "unack"):
        for off in (0, 2, 4, 8, 9, 100, 70000):
            for when in ("start", "middle", "after_all_data"):
                cases.append({"t": "empty_fd", "mode": mode, "off": off, "when": when})
    return cases


def run_empty_fd(case):
    from spacepackets.cfdp.pdu import FileDataPdu
    from spacepackets.cfdp.pdu.file_data import FileDataParams

    viol, obs = [], {"empty_file_data_cases": 1}
    cfg = {"mode": case["mode"], "closure": False, "size": 8, "seg": 4, "fs": "native"}
    with World(cfg) as w:
        D = w.D
        tc = prep.tx_conf(w)
        data = w.data
        md = pdugen.raw("MD", tc, {"size": 8, "cks": "crc32", "src_name": w.src_path.as_posix(), "dst_name": w.dst_req_path.as_posix()})
        seq = [("MD", md)]
        fds = [("FD", pdugen.raw("FD", tc, {"offset": o, "data": data[o : o + 4]})) for o in (0, 4)]
        empty = ("EMPTY", None)
        seq += {"start": [empty] + fds, "middle": [fds[0], empty, fds[1]], "after_all_data": fds + [empty]}[case["when"]]
        model = w.tree()
        dst = rel(w, w.dst_path)
        for kind, raw in seq:
            try:
                if kind == "EMPTY":
                    D.sm(FileDataPdu(tc, FileDataParams(file_data=b"", offset=case["off"], segment_metadata=None)), {"kind": "FD"})
                else:
                    prep.feed(D, raw)
            except Exception as e:  # noqa: BLE001
                obs["empty_file_data_refused"] = 1
            D.outbox.clear()
            if kind == "MD":
                model[dst] = b""
            elif kind == "FD":
                d = wire.describe(raw)
                buf = bytearray(model[dst])
                models.sparse_write(buf, d["offset"], data[d["offset"] : d["offset"] + d["dlen"]])
                model[dst] = bytes(buf)
            actual = w.tree()
            if actual != model:
                viol.append({"clause": "tree-differs-from-write-model", "after": kind, "empty_file_data_offset": case["off"], "when": case["when"],
                             "actual": {k: _brief(v) for k, v in actual.items() if model.get(k) != v}, "model": {k: _brief(v) for k, v in model.items() if actual.get(k) != v}})
                break
            obs["calls_compared"] = obs.get("calls_compared", 0) + 1
    for v in viol:
        v["case"] = case
    return {"viol": viol, "obs": obs, "sig": case, "sample": None}


def rel(w: World, p) -> str:
    return Path(p).relative_to(w.sandbox).as_posix()


def run_case(case):
    if case.get("t") == "empty_fd":
        return run_empty_fd(case)
    rng = random.Random(case["seed"])
    cfg = {"mode": "ack", "disp": rng.random() < 0.5, "imm_nak": rng.random() < 0.5, "check_limit": rng.choice([1, 2]), "nak_limit": 2, "ack_limit": 2,
           "size": 7, "fs": "native", "crc": rng.random() < 0.2,
           # every third history: the user overwrites the attributes of every parameter object its callbacks receive (after reading them)
           "scribble_user": case["seed"] % 3 == 0}
    viol, obs = [], {}
    if cfg["scribble_user"]:
        obs["histories_with_user_editing_indication_parameters"] = 1
    with World(cfg) as w:
        D = w.D
        sb = w.sandbox
        (sb / "dstdir" / "decoy.bin").write_bytes(b"decoy-in-destination-directory")
        (sb / "decoy2").write_bytes(b"decoy-next-to-directories")
        (sb / "src.bin").write_bytes(b"decoy-named-like-the-source")
        (sb / "dstdir" / "sub").mkdir()
        (sb / "dstdir" / "sub" / "src.bin").write_bytes(b"decoy-in-subdirectory")
        model = w.tree()
        ntx = rng.choice([1, 2, 2, 3, 4])
        hist = []
        writes_checked = 0
        for t in range(ntx):
            mode = rng.choice(["ack", "unack"])
            closure = rng.random() < 0.5
            large = (case["seed"] + t) % 6 == 0  # (the sender marks this transaction's PDUs with the large file flag: 64 bit offsets)
            obs["transactions_with_large_file_flag"] = obs.get("transactions_with_large_file_flag", 0) + int(large)
            tc = pdugen.conf(1, 2, 10 + t, idw=2, seqw=2, mode=mode, crc=cfg["crc"], large=large)
            kind = rng.choice(["file", "dir", "existing", "dir_existing", "file"])
            if kind in ("file", "existing"):
                dreq = sb / "dstdir" / f"out{t}.bin"
                resolved = rel(w, dreq)
            else:
                dreq = sb / "dstdir"
                resolved = "dstdir/src.bin"
            if kind in ("existing", "dir_existing"):
                old = b"OLD" * rng.choice([1, 9]) + bytes([t])
                (sb / resolved).write_bytes(old)
                model[resolved] = old
            size = rng.choice([0, 4, 8, 10, 13])
            content = bytes(rng.randrange(256) for _ in range(size))
            cks = rng.choice(["crc32", "crc32", "crc32c", "modular", "null"])
            md = pdugen.raw("MD", tc, {"size": size, "cks": cks, "closure": closure, "src_name": w.src_path.as_posix(), "dst_name": dreq.as_posix()})
            md_known = False
            delivered_complete = False
            tx_resolved = None
            in_order = rng.random() < 0.5
            nxt_off = 0
            hist.append(f"T{t}:{mode}{'+closure' if closure else ''}:{kind}:size{size}:{cks}")
            nsteps = rng.randrange(3, 30)
            for step in range(nsteps + 3):
                r = rng.random()
                raw, act, fd_data = None, None, None
                if step >= nsteps:
                    # wind the transaction down so that the next one starts on an idle handler
                    act = ["eof_ok", "ack_fin", "reset"][step - nsteps]
                elif step == 0 and rng.random() < 0.75:
                    act = "md"
                elif r < 0.08:
                    act = "md"
                elif r < 0.62:
                    act = "fd"
                elif r < 0.70:
                    act = "eof_ok"
                elif r < 0.74:
                    act = "eof_bad"
                elif r < 0.78:
                    act = "eof_cancel"
                elif r < 0.83:
                    act = "ack_fin"
                elif r < 0.90:
                    act = "tick"
                elif r < 0.94:
                    act = "cancel"
                else:
                    act = "idle"
                if act == "md":
                    raw = md
                elif act == "fd":
                    if in_order and rng.random() < 0.8 and nxt_off < size:
                        off = nxt_off
                        ln = min(rng.choice([1, 2, 4, 4]), size - off)
                        nxt_off = off + ln
                    else:
                        off = rng.choice([0, 0, 1, 2, 4, 4, 6, 8, 9, 12, 30])
                        ln = rng.choice([1, 2, 4, 4, 7])
                    if rng.random() < 0.8 and off + ln <= size:
                        fd_data = content[off : off + ln]
                    else:
                        fd_data = bytes(rng.randrange(256) for _ in range(ln))
                    raw = pdugen.raw("FD", tc, {"offset": off, "data": fd_data})
                elif act in ("eof_ok", "eof_bad", "eof_cancel"):
                    esize = size if rng.random() < 0.8 else rng.choice([0, 4, 8, 10, 20])
                    cur = model.get(tx_resolved) if tx_resolved else None
                    basis = cur if isinstance(cur, bytes) else content
                    ck = models.checksum(cks, (basis + b"\0" * esize)[:esize]) if act != "eof_bad" else b"\xde\xad\xbe\xef"
                    f = {"size": esize, "cksum": ck}
                    if act == "eof_cancel":
                        f["cond"] = "CANCEL_REQUEST_RECEIVED"
                        f["fault_loc"] = b"\x00\x01"
                    raw = pdugen.raw("EOF", tc, f)
                elif act == "ack_fin":
                    raw = pdugen.raw("ACK_FIN", tc)
                mark = len(w.log.events)
                aborted = None
                proto = None
                try:
                    if act == "tick":
                        vclock.advance_to_next_expiry()
                        D.sm()
                    elif act == "cancel":
                        tid = D.h.transaction_id
                        if tid is not None:
                            D.cancel(tid)
                    elif act == "reset":
                        if D.h.state.name != "IDLE":
                            D.reset()
                            obs["forced_resets"] = obs.get("forced_resets", 0) + 1
                    elif raw is None:
                        D.sm()
                    else:
                        D.sm(wire.parse(raw), {"kind": wire.kind_of(raw)})
                except PROTO_EXC as e:
                    proto = type(e).__name__
                except Exception as e:  # noqa: BLE001
                    aborted = f"{type(e).__name__}: {str(e)[:80]}"
                D.outbox.clear()
                evs = w.log.events[mark:]
                # ---- model update from the same-call events, in order -------------------------------
                for e in evs:
                    k = e["kind"]
                    if k == "ind_metadata_recv" and e["dest_file_name"] is not None:
                        r_ = rel(w, e["dest_file_name"])
                        if model.get(r_) == "DIR":
                            r_ = r_ + "/" + Path(e["source_file_name"]).name
                        model[r_] = b""
                        tx_resolved = r_
                        md_known = True
                        obs["metadata_accepted"] = obs.get("metadata_accepted", 0) + 1
                        if r_ != resolved:
                            viol.append({"clause": "harness-resolved-path-differs", "model": r_, "expected": resolved})
                    elif k == "ind_file_segment_recv":
                        if act != "fd" or (e["offset"], e["length"]) != (off, len(fd_data)):
                            viol.append({"clause": "file-segment-indication-without-matching-file-data-pdu", "indication": (e["offset"], e["length"]), "action": act})
                            continue
                        if not md_known or tx_resolved not in model or model[tx_resolved] == "DIR":
                            viol.append({"clause": "file-data-accepted-without-destination-file", "md_known": md_known, "resolved": tx_resolved})
                            continue
                        buf = bytearray(model[tx_resolved])
                        models.sparse_write(buf, off, fd_data)
                        model[tx_resolved] = bytes(buf)
                        writes_checked += 1
                        if off > len(buf) - len(fd_data) - 1:
                            pass
                    elif k == "ind_finished":
                        fin = e["fin"]
                        if tuple(fin[:2]) == ("NO_ERROR", "DATA_COMPLETE"):
                            delivered_complete = True  # a file reported as delivered is not deleted by anything that happens later
                        if fin[0] != "NO_ERROR" and cfg["disp"] and fin[1] == "DATA_INCOMPLETE" and md_known and tx_resolved in model and not delivered_complete:
                            del model[tx_resolved]
                            obs["deletions_expected"] = obs.get("deletions_expected", 0) + 1
                    elif k == "fs" and e["side"] == "D":
                        op = e["op"]
                        if op in ("write_data", "create_file", "truncate_file", "delete_file", "rename_file", "replace_file", "create_directory", "remove_directory"):
                            target = tx_resolved
                            # at Metadata time the resolved path is learnt in the same call: judge against the expected one
                            want = (sb / (target or resolved)).as_posix()
                            if not md_known and not any(x["kind"] == "ind_metadata_recv" for x in evs):
                                viol.append({"clause": "filestore-mutation-before-metadata", "op": op, "path": e.get("path")})
                            elif e.get("path") != (sb / resolved).as_posix():
                                viol.append({"clause": "filestore-mutation-on-other-path", "op": op, "path": e.get("path"), "resolved": want})
                            obs["mutating_filestore_calls_checked"] = obs.get("mutating_filestore_calls_checked", 0) + 1
                actual = w.tree()
                if aborted is not None:
                    obs["calls_aborted_by_internal_error_not_judged"] = obs.get("calls_aborted_by_internal_error_not_judged", 0) + 1
                    model = actual
                elif actual != model:
                    diff = {}
                    for p in sorted(set(actual) | set(model)):
                        a, m = actual.get(p), model.get(p)
                        if a != m:
                            diff[p] = {"actual": _brief(a), "model": _brief(m)}
                    viol.append({"clause": "tree-differs-from-write-model", "transaction": hist[-1], "step": step, "action": act,
                                 "pdu": None if raw is None else wire.short(wire.describe(raw)), "protocol_exception": proto,
                                 "handler_step_after": D.h.step.name, "events": [x["kind"] for x in evs if x["kind"].startswith("ind_")], "diff": diff})
                    model = actual
                else:
                    obs["calls_compared"] = obs.get("calls_compared", 0) + 1
                if act == "fd" and not md_known:
                    obs["file_data_before_metadata"] = obs.get("file_data_before_metadata", 0) + 1
                if D.h.state.name == "IDLE":
                    if md_known:
                        obs["transactions_with_metadata_finished"] = obs.get("transactions_with_metadata_finished", 0) + 1
                    md_known = False
                    delivered_complete = False
                    tx_resolved = None
                    if step >= nsteps:
                        break
                if len(viol) >= 3:
                    break
            if len(viol) >= 3:
                break
        obs["writes_applied_and_compared"] = writes_checked
        obs["dest_" + kind] = 1
        for v in viol:
            v["history"] = hist
            v["seed"] = case["seed"]
        sig = case if writes_checked else None
        sample = {"history": hist, "writes": writes_checked} if writes_checked > 6 else None
        return {"viol": viol, "obs": obs, "sig": sig, "sample": sample}


def _brief(x):
    if x is None:
        return None
    if x == "DIR":
        return "DIR"
    return {"len": len(x), "hex": bytes(x[:24]).hex()}


REQUIRED = {"empty_file_data_cases": 40, "histories_with_user_editing_indication_parameters": 300, "writes_applied_and_compared": 2000, "metadata_accepted": 500, "deletions_expected": 20, "file_data_before_metadata": 100,
            "mutating_filestore_calls_checked": 2000, "transactions_with_metadata_finished": 300}
