"""C18 - lost-segment bookkeeping refines an exact interval set."""
from __future__ import annotations

import copy
import hashlib
import random

from cfdppy.handler.dest import LostSegmentTracker

from ..models import IntervalSet

PROP = "C18"
LEVEL = "exploration"
TECHNIQUE = "runtime monitoring of the real LostSegmentTracker against an interval-set reference model after every operation (postcondition + structural invariant checks), exhaustive over small offsets/depth, seeded random beyond"
RULE = (
    "operation sequences over offsets 0..N from the empty tracker: add of a non-empty range disjoint from the tracked bytes, "
    "removal of a range inside one tracked range or touching none (incl. zero-length), coalesce, and removals straddling the end "
    "of a tracked range (must raise ValueError and change nothing).  Exhaustive DFS for N=6 (quick: depth 3, thorough: depth 4) "
    "and N=4 depth 5; random sequences up to N=64, depth 40.  After every operation: denoted set == model, keys ascending, no "
    "empty/overlapping ranges, remove() result == (set changed), coalesce keeps the set and leaves no adjacent ranges.  "
    "Non-trivial = sequence with >=2 state-changing operations; distinct = distinct operation sequences"
)
ASSUMPTIONS = ["only operations inside the domain stated by the property are generated (overlapping adds, removals crossing a range start or spanning several ranges are outside it)"]


class Bad(Exception):
    pass


def ranges_of(t: LostSegmentTracker):
    return list(t.lost_segments.items())


def check_struct(t, model: IntervalSet, seq):
    rs = ranges_of(t)
    for a, b in rs:
        if not (isinstance(a, int) and isinstance(b, int)) or b <= a:
            raise Bad({"clause": "empty-or-inverted-range", "ranges": rs, "seq": seq})
    for (a, b), (c, d) in zip(rs, rs[1:]):
        if c < a:
            raise Bad({"clause": "not-ascending", "ranges": rs, "seq": seq})
        if c < b:
            raise Bad({"clause": "overlapping-ranges", "ranges": rs, "seq": seq})
    if IntervalSet(rs) != model:
        raise Bad({"clause": "denoted-set-differs", "ranges": rs, "model": model.r, "seq": seq})
    if t.num_lost_segments != len(rs):
        raise Bad({"clause": "num_lost_segments", "ranges": rs, "seq": seq})


def apply(t: LostSegmentTracker, model: IntervalSet, op, seq):
    """Applies op to the real tracker and the model, checks postconditions.  Returns changed?"""
    kind = op[0]
    if kind == "add":
        t.add_lost_segment((op[1], op[2]))
        model.add(op[1], op[2])
        check_struct(t, model, seq)
        return True
    if kind == "rm":
        before = model.copy()
        try:
            res = t.remove_lost_segment((op[1], op[2]))
        except Exception as e:  # noqa: BLE001
            raise Bad({"clause": "legal-removal-raised", "etype": type(e).__name__, "op": op, "seq": seq}) from e
        model.remove(op[1], op[2])
        check_struct(t, model, seq)
        changed = model != before
        if res is not changed:
            raise Bad({"clause": "remove-result-differs-from-changed", "returned": res, "changed": changed, "seq": seq})
        return changed
    if kind == "coalesce":
        t.coalesce_lost_segments()
        check_struct(t, model, seq)
        rs = ranges_of(t)
        for (a, b), (c, d) in zip(rs, rs[1:]):
            if b == c:
                raise Bad({"clause": "adjacent-ranges-after-coalesce", "ranges": rs, "seq": seq})
        return False
    if kind == "straddle":
        before = ranges_of(t)
        try:
            t.remove_lost_segment((op[1], op[2]))
        except ValueError:
            if ranges_of(t) != before:
                raise Bad({"clause": "straddling-removal-changed-state", "before": before, "after": ranges_of(t), "seq": seq}) from None
            check_struct(t, model, seq)
            return False
        except Exception as e:  # noqa: BLE001
            raise Bad({"clause": "straddling-removal-wrong-exception", "etype": type(e).__name__, "seq": seq}) from e
        raise Bad({"clause": "straddling-removal-not-refused", "before": before, "after": ranges_of(t), "seq": seq})
    raise ValueError(op)


def legal_ops(t: LostSegmentTracker, model: IntervalSet, N: int):
    """All in-domain operations for the current state (ranges as the *tracker* holds them)."""
    ops = [("coalesce",)]
    rs = ranges_of(t)
    for a in range(N + 1):
        for b in range(a, N + 1):
            if b > a and not model.intersects(a, b):
                ops.append(("add", a, b))
            if b == a or not model.intersects(a, b):
                ops.append(("rm", a, b))
            elif any(s <= a and b <= e for s, e in rs):
                ops.append(("rm", a, b))
            elif any(s <= a < e and b > e for s, e in rs):
                ops.append(("straddle", a, b))
    return ops


def dfs(t, model, N, depth, seq, stats):
    if depth == 0:
        return
    for op in legal_ops(t, model, N):
        t2 = LostSegmentTracker()
        t2.lost_segments = dict(t.lost_segments)
        m2 = model.copy()
        s2 = seq + [op]
        changed = apply(t2, m2, op, s2)
        stats["ops"] += 1
        stats["op_" + op[0]] += 1
        if len(s2) >= 2:
            stats["seqs"] += 1
            stats["_sigs"].add(hashlib.sha1(repr(s2).encode()).hexdigest()[:16])
        dfs(t2, m2, N, depth - 1, s2, stats)


def gen_cases(tier, seed):
    cases = []
    t, m = LostSegmentTracker(), IntervalSet()
    depth6 = 3 if tier == "quick" else 4
    for op in legal_ops(t, m, 6):
        cases.append({"kind": "dfs", "N": 6, "depth": depth6, "first": list(op)})
    for op in legal_ops(t, m, 4):
        cases.append({"kind": "dfs", "N": 4, "depth": 4 if tier == "quick" else 5, "first": list(op)})
    nrand = 60 if tier == "quick" else 600
    for i in range(nrand):
        cases.append({"kind": "random", "seed": seed * 100003 + i, "N": random.Random(i).choice([8, 16, 64]), "n": 300, "depth": 40})
    return cases


def run_case(case):
    from collections import Counter

    stats = Counter()
    sigs = set()
    stats["_sigs"] = sigs  # type: ignore[assignment]
    viol = []
    sample = None
    try:
        if case["kind"] == "dfs":
            t, m = LostSegmentTracker(), IntervalSet()
            op = tuple(case["first"])
            apply(t, m, op, [op])
            stats["ops"] += 1
            stats["op_" + op[0]] += 1
            dfs(t, m, case["N"], case["depth"] - 1, [op], stats)
            sample = {"first_op": op, "N": case["N"], "depth": case["depth"], "sequences_below": stats["seqs"]}
        else:
            rng = random.Random(case["seed"])
            for _ in range(case["n"]):
                t, m = LostSegmentTracker(), IntervalSet()
                seq = []
                changes = 0
                for _ in range(rng.randrange(2, case["depth"])):
                    ops = legal_ops(t, m, case["N"]) if case["N"] <= 16 else None
                    if ops is None:
                        ops = random_ops(t, m, case["N"], rng)
                    w = [5 if o[0] == "add" else (3 if o[0] == "rm" and o[2] > o[1] and m.intersects(o[1], o[2]) else 1) for o in ops]
                    op = rng.choices(ops, w)[0]
                    seq.append(op)
                    if apply(t, m, op, seq):
                        changes += 1
                    stats["ops"] += 1
                    stats["op_" + op[0]] += 1
                if changes >= 2:
                    stats["seqs"] += 1
                    sigs.add(hashlib.sha1(repr(seq).encode()).hexdigest()[:16])
                sample = {"random_sequence": seq[:12], "final": ranges_of(t)}
    except Bad as b:
        viol.append(b.args[0])
    obs = dict(stats)
    obs.pop("_sigs")
    obs["sequences"] = obs.pop("seqs", 0)
    return {"viol": viol, "sig": [case.get("first"), case.get("seed"), case["N"], case["depth"]] if obs["sequences"] else None,
            "sigs": sorted(sigs), "obs": obs, "sample": sample}


def random_ops(t, m, N, rng):
    """A sampled subset of the legal operations for large N."""
    ops = [("coalesce",)]
    rs = ranges_of(t)
    for _ in range(40):
        a = rng.randrange(N + 1)
        b = rng.randrange(a, min(N, a + 12) + 1)
        if b > a and not m.intersects(a, b):
            ops.append(("add", a, b))
            ops.append(("rm", a, b))
        elif b == a:
            ops.append(("rm", a, b))
    for s, e in rs:
        a = rng.randrange(s, e)
        b = rng.randrange(a, e) + 1
        ops.append(("rm", a, b))
        ops.append(("rm", s, e))
        ops.append(("straddle", a, e + rng.randrange(1, 4)))
    return ops


def exhaustive(tier):
    return False


REQUIRED = {"op_add": 100, "op_rm": 100, "op_coalesce": 100, "op_straddle": 100, "sequences": 1000}
