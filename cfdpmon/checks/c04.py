"""C04 - retry limits are honoured exactly; a silent peer cannot hang a transaction."""
from __future__ import annotations

import itertools

from .. import models, pdugen, prep, vclock, wire
from ..oracles import trace_summary
from ..world import EnumPlan, InternalError, Plan, PROTO_EXC, Runner, World

PROP = "C04"
LEVEL = "fault_enumeration"
TECHNIQUE = "runtime monitoring in lock-step with a retry-counter model on virtual time: the real handler is driven to each timer-driven procedure (EOF awaiting ACK, Finished awaiting ACK, NAK awaiting data), the peer falls silent, the clock is moved to 1 ms before and exactly onto every computed deadline and the emitted PDUs / fault callbacks / indications of every expiry are compared with the model; plus enumeration of every silence cut point of the loopback for bounded termination"
RULE = (
    "scenario cases = procedure (EOF-ACK at the sender, Finished-ACK at the receiver, deferred NAK at the receiver with metadata present/missing, immediate/"
    "deferred NAK mode) x limit N in {1,2,3,5} x interval {1 s, 50 ms} x silence permanent or ended by progress after j<N expiries (ACK/segment/metadata "
    "arriving before or after the idle call of that expiry); each expiry is probed 1 ms early (nothing may happen) and on time.  cut cases = every emission "
    "index of the clean loopback run x direction(s) going silent forever x N x NAK mode: both handlers must be idle (or in one of the two documented "
    "excluded waits) and silent within 2N+2 expiries per procedure.  Non-trivial = at least one timer expiry was observed; distinct = distinct cases"
)
ASSUMPTIONS = [
    "an expiry = the virtual clock reaches the deadline computed from the last (re)start of the procedure's Countdown and the handler is called",
    "excluded (documented unimplemented inactivity handling): sender waiting for the Finished PDU after its EOF was acknowledged; receiver waiting for file data / EOF",
]
NS = [1, 2, 3, 5]
IVLS = [1.0, 0.05]


def gen_cases(tier, seed):
    cases = []
    ns = NS if tier == "quick" else NS + [4, 8]
    ivls = IVLS if tier == "quick" else IVLS + [0.001, 37.5]
    for N, ivl in itertools.product(ns, ivls):
        for size in (0, 16):
            cases.append({"t": "eof", "N": N, "ivl": ivl, "size": size, "recover": None})
            for j in range(1, N):
                for order in ("before_idle", "after_idle"):
                    cases.append({"t": "eof", "N": N, "ivl": ivl, "size": size, "recover": [j, order, "phase1"]})
                    cases.append({"t": "eof", "N": N, "ivl": ivl, "size": size, "recover": [j, order, "phase2"]})
            cases.append({"t": "fin", "N": N, "ivl": ivl, "size": size, "recover": None})
            for t in ("eof", "fin"):
                if ivl >= 0.004 and size:
                    # a PDU which is no progress for the running procedure arrives in the middle of an interval (a NAK at the sender awaiting
                    # the ACK of its EOF; the re-sent EOF at the receiver awaiting the ACK of its Finished): answered, but the count goes on
                    for ph, e in [("phase1", e) for e in range(1, N + 1)] + [("phase2", 1), ("phase2", N)]:
                        cases.append({"t": t, "N": N, "ivl": ivl, "size": size, "recover": None, "distract": [ph, e]})
                        if e < N and ph == "phase1":
                            cases.append({"t": t, "N": N, "ivl": ivl, "size": size, "recover": None, "distract": [ph, e, "race"]})
                        if t == "eof":
                            # the user issues a put request towards another (differently configured) entity: refused, the handler is busy
                            cases.append({"t": t, "N": N, "ivl": ivl, "size": size, "recover": None, "distract": [ph, e, "put"]})
                cases.append({"t": t, "N": N, "ivl": ivl, "size": size, "recover": None, "other_entity": True})
                cases.append({"t": t, "N": N, "ivl": ivl, "size": size, "recover": None, "prev_ivl": ivl * 5})
                cases.append({"t": t, "N": N, "ivl": ivl, "size": size, "recover": None, "prev_ivl": max(0.001, ivl / 5)})
            for j in range(1, N):
                for order in ("before_idle", "after_idle"):
                    cases.append({"t": "fin", "N": N, "ivl": ivl, "size": size, "recover": [j, order, "phase1"]})
                    cases.append({"t": "fin", "N": N, "ivl": ivl, "size": size, "recover": [j, order, "phase2"]})
        for nfd, cks in itertools.product((0, 1, 3), ("crc32", "modular")):
            cases.append({"t": "cancel_mid", "N": N, "ivl": ivl, "nfd": nfd, "cks": cks})
        for i, cond in enumerate(EOF_CANCEL_CONDS):
            for md, nfd in ((True, 0), (True, 2), (False, 1)):
                cases.append({"t": "cancel_resp", "N": N, "ivl": ivl, "cond": cond, "md": md, "nfd": nfd, "imm": bool((i + nfd) % 2)})
        for imm, md_missing in itertools.product((True, False), (False, True)):
            for Na in (1, 2, 3):
                cases.append({"t": "nak", "N": N, "Na": Na, "ivl": ivl, "imm": imm, "md_missing": md_missing, "progress": None})
            if ivl >= 0.004:
                for e in sorted({1, N}):
                    cases.append({"t": "nak", "N": N, "Na": 2, "ivl": ivl, "imm": imm, "md_missing": md_missing, "progress": None, "distract": e})
            for j in range(1, N):
                for what in (["fd"] if not md_missing else ["md", "fd_before_md"]):
                    cases.append({"t": "nak", "N": N, "Na": 2, "ivl": ivl, "imm": imm, "md_missing": md_missing, "progress": [j, what]})
            # NAK sequences of several PDUs, incl. request counts which fill the last NAK PDU exactly (max_packet_len 30: one request per
            # NAK PDU, 36: two, 44: three)
            if ivl == 1.0:
                for maxpkt, gaps in itertools.product((30, 36, 44), (1, 2, 3)):
                    cases.append({"t": "nak", "N": N, "Na": 2, "ivl": ivl, "imm": imm, "md_missing": md_missing, "progress": None, "maxpkt": maxpkt, "gaps": gaps})
                    if N > 1 and not md_missing:
                        cases.append({"t": "nak", "N": N, "Na": 2, "ivl": ivl, "imm": imm, "md_missing": md_missing, "progress": [1, "fd"], "maxpkt": maxpkt, "gaps": gaps})
    # silence cut points of the loopback
    for N in ([1, 2] if tier == "quick" else [1, 2, 3, 4]):
        for imm in (True, False):
            for size, maxpkt in (((0, 64), (9, 64)) if tier == "quick" else ((0, 64), (4, 64), (9, 64), (17, 64), (17, 36), (33, 30))):
                for closure in (False, True):
                    cfg = {"mode": "ack", "size": size, "seg": 4, "imm_nak": imm, "closure": closure, "ack_limit": N, "nak_limit": N, "maxpkt": maxpkt}
                    with World(cfg) as w:
                        r = Runner(w)
                        w.put()
                        r.run()
                        n = r.emit_idx
                    for k in range(n + 1):
                        for dirs in ("s2d", "d2s", "both"):
                            cases.append({"t": "cut", "cfg": cfg, "k": k, "dirs": dirs, "N": N})
    return cases


class Probe:
    """Drives one endpoint through silence; collects what happens per call."""

    def __init__(self, w, ep):
        self.w, self.ep = w, ep
        self.mark = len(w.log.events)
        self.viol = []
        self.expiries = 0

    def since(self):
        evs = self.w.log.events[self.mark :]
        self.mark = len(self.w.log.events)
        tx = [e for e in evs if e["kind"] == "tx" and e["side"] == self.ep.side]
        fh = [(e["which"], e["cond"]) for e in evs if e["kind"] == "fh" and e["side"] == self.ep.side]
        fins = [tuple(e["fin"][:3]) for e in evs if e["kind"] == "ind_finished" and e["side"] == self.ep.side]
        return tx, fh, fins

    def call(self, raw=None):
        try:
            if raw is None:
                self.ep.sm()
            else:
                e = prep.feed(self.ep, raw)
                if e is not None:
                    self.viol.append({"clause": "scripted-pdu-refused", "etype": type(e).__name__})
        except PROTO_EXC as e:
            self.viol.append({"clause": "idle-call-raised", "etype": type(e).__name__})
        except Exception as e:  # noqa: BLE001
            self.viol.append({"clause": "call-raised-internal-error", "etype": type(e).__name__, "msg": str(e)[:150]})
        self.ep.outbox.clear()
        return self.since()

    def expect_nothing(self, what, raw=None):
        tx, fh, fins = self.call(raw)
        if tx or fh or fins:
            self.viol.append({"clause": "activity-without-expiry", "when": what, "tx": [wire.short(t["d"]) for t in tx], "fh": fh, "fins": fins})

    def expiry(self, t_reset_ms, ivl_ms, what):
        """1 ms early: nothing.  On time: returns (tx, fh, fins)."""
        target = t_reset_ms + ivl_ms
        vclock.advance(target - 1 - vclock.now_ms())
        self.expect_nothing(what + ":1ms-before-deadline")
        vclock.advance(1)
        self.expiries += 1
        res = self.call()
        self.expect_nothing(what + ":second-call-same-instant")
        return res

    def check(self, got, what, tx_raw=None, tx_desc=None, fh=(), fins=()):
        tx, gfh, gfins = got
        ok = True
        if tx_raw is not None and [t["raw"] for t in tx] != list(tx_raw):
            ok = False
        if tx_desc is not None:
            if len(tx) != len(tx_desc):
                ok = False
            else:
                for t, want in zip(tx, tx_desc):
                    if any(t["d"].get(k) != v for k, v in want.items()):
                        ok = False
        if list(gfh) != list(fh) or list(gfins) != list(fins):
            ok = False
        if not ok:
            self.viol.append({"clause": "expiry-behaviour-differs-from-retry-model", "when": what, "got_tx": [wire.short(t["d"]) for t in tx],
                              "got_fh": gfh, "got_fins": gfins,
                              "want_tx": tx_desc if tx_desc is not None else [wire.short(wire.describe(r)) for r in (tx_raw or [])],
                              "want_fh": list(fh), "want_fins": list(fins)})
        return ok

    def quiet_for(self, ivl_ms, n, what, idle_step=None):
        for i in range(n):
            vclock.advance(ivl_ms)
            self.expect_nothing(f"{what}:quiet-interval-{i + 1}")
        if idle_step is not None and self.ep.h.step.name != idle_step:
            self.viol.append({"clause": "unexpected-final-step", "when": what, "step": self.ep.h.step.name, "want": idle_step})


def last_tx(w, side, kind):
    for e in reversed(w.log.of("tx", side)):
        if e["d"].get("kind") == kind:
            return e
    return None


def run_positive_ack(case, side):
    """EOF-ACK procedure at the sender (side S) or Finished-ACK procedure at the receiver (side D)."""
    N, ivl_ms = case["N"], int(case["ivl"] * 1000)
    cfg = {"mode": "ack", "size": case["size"], "seg": 4, "ack_limit": N, "ack_ivl": case["ivl"], "nak_ivl": 77.0, "fs": "mem",
           "scribble_pdus": bool((N + case["size"]) % 2)}  # (in half of the scenarios the user edits every PDU object it has retrieved)
    obs = {}
    if case.get("other_entity"):
        # another entity of the same process configures its own fault handler table (to ignore the limit faults); this entity keeps the defaults
        with World({"fh_src": {"POSITIVE_ACK_LIMIT_REACHED": "ignore", "NAK_LIMIT_REACHED": "ignore"},
                    "fh_dst": {"POSITIVE_ACK_LIMIT_REACHED": "ignore", "NAK_LIMIT_REACHED": "ignore"}, "fs": "mem"}):
            pass
        obs["scenarios_next_to_other_entity_with_own_fault_table"] = 1
    prev_ivl = case.get("prev_ivl")
    if prev_ivl is not None:
        cfg["ack_ivl"] = prev_ivl
    with World(cfg) as w:
        ep = w.S if side == "S" else w.D
        if prev_ivl is not None:
            # an earlier transaction on the same handler ran (and was acknowledged) with another timer interval; then the user re-tuned the MIB
            done = prep.src_to(w, "IDLE_AFTER_TRANSACTION") if side == "S" else prep.dst_to(w, "IDLE_AFTER_TRANSACTION")
            if not done:
                return [{"clause": "harness-could-not-complete-first-transaction", "step": ep.h.step.name}], obs, None
            for rc in (w.rc_dst_at_src, w.rc_src_at_dst):
                rc.positive_ack_timer_interval_seconds = case["ivl"]
            w.cfg["seq_start"] = w.cfg["seq_start"] + (1 if side == "S" else 1)
            ep.outbox.clear()
            obs["scenarios_on_reused_handler_with_retuned_interval"] = 1
        ok = prep.src_to(w, "WAITING_FOR_EOF_ACK") if side == "S" else prep.dst_to(w, "WAITING_FOR_FINISHED_ACK")
        if not ok:
            return [{"clause": "harness-could-not-prepare-step", "step": ep.h.step.name}], obs, None
        kind = "EOF" if side == "S" else "FIN"
        first = last_tx(w, side, kind)
        p = Probe(w, ep)
        tc = prep.tx_conf(w)
        progress = case["size"]
        cancel_cond = "POSITIVE_ACK_LIMIT_REACHED"
        ack_kind = "ACK_EOF" if side == "S" else "ACK_FIN"
        rest_step = "WAITING_FOR_FINISHED" if side == "S" else "IDLE"
        rec = case["recover"]

        def recovered(phase, e, t_reset):
            """progress (the ACK) arrives at expiry e of this phase"""
            cond = "NO_ERROR" if phase == "phase1" else cancel_cond
            ack = pdugen.raw(ack_kind, tc, {"cond": cond})
            if rec[1] == "before_idle":
                vclock.advance(t_reset + ivl_ms - vclock.now_ms())
                p.expiries += 1
                got = p.call(ack)
                p.check(got, f"{phase}:ack-arrives-with-expiry-{e}", tx_raw=[], fh=[], fins=[])
            else:
                got = p.expiry(t_reset, ivl_ms, f"{phase}:expiry-{e}")
                p.check(got, f"{phase}:expiry-{e}", tx_raw=[cur_raw], fh=[], fins=[])
                got = p.call(ack)
                p.check(got, f"{phase}:ack-after-expiry-{e}", tx_raw=[], fh=[], fins=[])
            p.quiet_for(ivl_ms, 2 * N + 2, "after-progress", idle_step=rest_step)
            obs["recovered_runs"] = 1

        cur_raw = first["raw"]
        t_reset = vclock.now_ms()
        dis = case.get("distract")
        for phase in ("phase1", "phase2"):
            for e in range(1, N + 1):
                if dis and dis[0] == phase and dis[1] == e and dis[2:] == ["race"]:
                    # the non-progress PDU is handed over in the very call which is the first one after the deadline: it is answered and the
                    # expiry is served (re-send) in that call or in the next one at the same instant, without any exception
                    vclock.advance(t_reset + ivl_ms - 1 - vclock.now_ms())
                    p.expect_nothing(f"{phase}:expiry-{e}:1ms-before-deadline")
                    vclock.advance(1)
                    p.expiries += 1
                    if side == "S":
                        raw, want_kinds = pdugen.raw("NAK", tc, {"scope": (0, case["size"]), "reqs": [(0, 4)]}), ["FD"]
                    else:
                        raw, want_kinds = pdugen.raw("EOF", tc, {"size": case["size"], "cksum": models.checksum("crc32", w.data[: case["size"]])}), ["ACK_EOF"]
                    tx1, fh1, fins1 = p.call(raw)
                    tx2, fh2, fins2 = p.call()
                    tx3, fh3, fins3 = p.call()
                    got_all = tx1 + tx2 + tx3
                    kinds = sorted(t["d"].get("kind") for t in got_all)
                    resent = [t["raw"] for t in got_all if t["d"].get("kind") == kind]
                    if kinds != sorted(want_kinds + [kind]) or resent != [cur_raw] or fh1 or fh2 or fh3 or fins1 or fins2 or fins3:
                        p.viol.append({"clause": "expiry-together-with-non-progress-pdu-not-served", "when": f"{phase}:expiry-{e}-of-{N}",
                                       "tx": [wire.short(t["d"]) for t in got_all], "want_kinds": sorted(want_kinds + [kind]), "fh": fh1 + fh2 + fh3})
                    t_reset = vclock.now_ms()
                    obs["non_progress_pdus_with_expiry"] = obs.get("non_progress_pdus_with_expiry", 0) + 1
                    obs["resends_checked"] = obs.get("resends_checked", 0) + 1
                    continue
                if dis and dis[0] == phase and dis[1] == e:
                    vclock.advance(t_reset + ivl_ms // 2 - vclock.now_ms())
                    if dis[2:] == ["put"]:
                        p.since()
                        try:
                            acc = w.put_to_third()
                        except Exception as ex:  # noqa: BLE001
                            acc = type(ex).__name__
                        ep.outbox.clear()
                        tx, gfh, gfins = p.since()
                        if acc is not False or tx or gfh or gfins:
                            p.viol.append({"clause": "put-request-while-busy-not-refused-quietly", "returned": acc, "tx": [wire.short(t["d"]) for t in tx]})
                        obs["refused_put_requests_mid_interval"] = obs.get("refused_put_requests_mid_interval", 0) + 1
                        raw = None
                    elif side == "S":
                        raw, want_kinds = pdugen.raw("NAK", tc, {"scope": (0, case["size"]), "reqs": [(0, 4)]}), ["FD"]
                    else:
                        raw, want_kinds = pdugen.raw("EOF", tc, {"size": case["size"], "cksum": models.checksum("crc32", w.data[: case["size"]])}), ["ACK_EOF"]
                    if raw is not None:
                        tx, gfh, gfins = p.call(raw)
                        if [t["d"].get("kind") for t in tx] != want_kinds or gfh or gfins:
                            p.viol.append({"clause": "non-progress-pdu-not-answered-as-expected", "when": f"{phase}:before-expiry-{e}",
                                           "tx": [wire.short(t["d"]) for t in tx], "want": want_kinds, "fh": gfh, "fins": gfins})
                    p.expect_nothing(f"{phase}:call-after-non-progress-event")
                    obs["non_progress_pdus_mid_interval"] = obs.get("non_progress_pdus_mid_interval", 0) + 1
                if rec and rec[2] == phase and rec[0] == e:
                    recovered(phase, e, t_reset)
                    obs["expiries"] = p.expiries
                    return p.viol, obs, trace_summary(w, None, 40)
                got = p.expiry(t_reset, ivl_ms, f"{phase}:expiry-{e}")
                t_reset = vclock.now_ms()
                if e < N:
                    p.check(got, f"{phase}:expiry-{e}-of-{N}:re-send", tx_raw=[cur_raw], fh=[], fins=[])
                    obs["resends_checked"] = obs.get("resends_checked", 0) + 1
                elif phase == "phase1":
                    if side == "S":
                        want = [{"kind": "EOF", "cond": cancel_cond, "size": progress, "cksum": models.checksum("crc32", w.data[:progress]).hex()}]
                        p.check(got, f"phase1:expiry-{N}:limit-fault", tx_desc=want, fh=[("cancel", cancel_cond)], fins=[])
                    else:
                        want = [{"kind": "FIN", "cond": cancel_cond, "delivery": "DATA_COMPLETE", "fstatus": "FILE_RETAINED"}]
                        p.check(got, f"phase1:expiry-{N}:limit-fault", tx_desc=want, fh=[("cancel", cancel_cond)],
                                fins=[(cancel_cond, "DATA_COMPLETE", "FILE_RETAINED")])
                    obs["limit_faults_checked"] = obs.get("limit_faults_checked", 0) + 1
                    if got[0]:
                        cur_raw = got[0][-1]["raw"]
                else:
                    p.check(got, f"phase2:expiry-{N}:abandon", tx_raw=[], fh=[("abandon", cancel_cond)], fins=[])
                    obs["abandons_checked"] = obs.get("abandons_checked", 0) + 1
                    if ep.h.state.name != "IDLE":
                        p.viol.append({"clause": "not-idle-after-abandon", "step": ep.h.step.name})
        p.quiet_for(ivl_ms, 3, "after-abandon", idle_step="IDLE")
        obs["expiries"] = p.expiries
        return p.viol, obs, trace_summary(w, None, 40)


def run_cancel_mid(case):
    """The sender is cancelled in the middle of the file; the EOF (cancel) is never acknowledged: it is re-sent unchanged N-1 times, then the
    transaction is abandoned (a fault during the transfer of the EOF (cancel))."""
    N, ivl_ms = case["N"], int(case["ivl"] * 1000)
    cfg = {"mode": "ack", "size": 20, "seg": 4, "ack_limit": N, "ack_ivl": case["ivl"], "fs": "mem", "cks": case["cks"]}
    obs = {}
    with World(cfg) as w:
        S = w.S
        w.put()
        for _ in range(2 + case["nfd"]):
            S.sm()
        S.outbox.clear()
        sent = max([e["d"]["offset"] + e["d"]["dlen"] for e in w.log.of("tx", "S") if e["d"].get("kind") == "FD"] or [0])
        p = Probe(w, S)
        try:
            ok = S.cancel(S.h.transaction_id)
        except Exception as e:  # noqa: BLE001
            return [{"clause": "cancel-request-raised", "etype": type(e).__name__}], obs, None
        S.outbox.clear()
        first = last_tx(w, "S", "EOF")
        if not ok or first is None or first["d"].get("cond") != "CANCEL_REQUEST_RECEIVED":
            return [{"clause": "harness-could-not-cancel-mid-file", "ok": ok}], obs, None
        want_ck = models.checksum(case["cks"], w.data[:sent]).hex()
        if first["d"]["size"] != sent or first["d"]["cksum"] != want_ck:
            p.viol.append({"clause": "eof-cancel-size-or-checksum", "eof": wire.short(first["d"]), "cksum": first["d"]["cksum"], "want": want_ck, "sent": sent})
        p.since()
        t_reset = vclock.now_ms()
        for e in range(1, N + 1):
            got = p.expiry(t_reset, ivl_ms, f"eof-cancel:expiry-{e}")
            t_reset = vclock.now_ms()
            if e < N:
                p.check(got, f"eof-cancel:expiry-{e}-of-{N}:re-send-unchanged", tx_raw=[first["raw"]], fh=[], fins=[])
                obs["resends_checked"] = obs.get("resends_checked", 0) + 1
                obs["eof_cancel_mid_file_resends_checked"] = obs.get("eof_cancel_mid_file_resends_checked", 0) + 1
            else:
                p.check(got, f"eof-cancel:expiry-{N}:abandon", tx_raw=[], fh=[("abandon", "CANCEL_REQUEST_RECEIVED")], fins=[])
                obs["abandons_checked"] = obs.get("abandons_checked", 0) + 1
                if S.h.state.name != "IDLE":
                    p.viol.append({"clause": "not-idle-after-abandon", "step": S.h.step.name})
        p.quiet_for(ivl_ms, 3, "after-abandon", idle_step="IDLE")
        obs["expiries"] = p.expiries
        return p.viol, obs, trace_summary(w, None, 40)


EOF_CANCEL_CONDS = ["CANCEL_REQUEST_RECEIVED", "POSITIVE_ACK_LIMIT_REACHED", "NAK_LIMIT_REACHED", "FILE_CHECKSUM_FAILURE", "FILE_SIZE_ERROR",
                    "FILESTORE_REJECTION", "INACTIVITY_DETECTED", "INVALID_TRANSMISSION_MODE", "CHECK_LIMIT_REACHED",
                    "UNSUPPORTED_CHECKSUM_TYPE", "KEEP_ALIVE_LIMIT_REACHED", "SUSPEND_REQUEST_RECEIVED"]


def run_cancel_resp(case):
    """The receiver is told by an EOF (cancel) PDU, whatever condition code the sender gives in it, that the transaction is cancelled; it
    answers with the ACK and a Finished PDU, and the sender falls silent: the Finished PDU is re-sent unchanged N-1 times, then the
    transaction is abandoned and the handler is idle (which callback reports the abandonment is not prescribed here)."""
    N, ivl_ms, cond = case["N"], int(case["ivl"] * 1000), case["cond"]
    cfg = {"mode": "ack", "size": 20, "seg": 4, "ack_limit": N, "ack_ivl": case["ivl"], "nak_ivl": 77.0, "fs": "mem", "imm_nak": case["imm"]}
    obs = {}
    with World(cfg) as w:
        D = w.D
        tc = prep.tx_conf(w)
        p = Probe(w, D)
        sent = 4 * case["nfd"]
        if case["md"]:
            p.call(pdugen.raw("MD", tc, {"size": 20, "cks": "crc32", "closure": False, "src_name": w.src_path.as_posix(), "dst_name": w.dst_req_path.as_posix()}))
        for i in range(case["nfd"]):
            p.call(pdugen.raw("FD", tc, {"offset": 4 * i, "data": w.data[4 * i : 4 * i + 4]}))
        p.viol.clear()
        p.since()
        got = p.call(pdugen.raw("EOF", tc, {"size": sent, "cksum": models.checksum("crc32", w.data[:sent]), "cond": cond}))
        more = p.call()
        tx = got[0] + more[0]
        fin = [t for t in tx if t["d"].get("kind") == "FIN"]
        if D.h.state.name == "IDLE" and not tx:
            # (nothing to answer: without Metadata and file data there is no transaction the EOF (cancel) could belong to)
            obs["eof_cancel_without_transaction"] = 1
            return p.viol, obs, None
        # (what the Finished PDU carries is C12's subject; with Unsupported Checksum Type the dependency packs a Finished PDU whose length
        # field counts a fault location it leaves out - DESIGN 9.2 - so only the kind is looked at here)
        if [t["d"].get("kind") for t in tx] != ["ACK_EOF", "FIN"]:
            p.viol.append({"clause": "eof-cancel-not-answered-with-ack-and-finished", "cond": cond, "tx": [wire.short(t["d"]) for t in tx]})
            return p.viol, obs, trace_summary(w, None, 40)
        t_reset = vclock.now_ms()
        for e in range(1, N + 1):
            got = p.expiry(t_reset, ivl_ms, f"finished-cancel({cond}):expiry-{e}")
            t_reset = vclock.now_ms()
            if e < N:
                p.check(got, f"finished-cancel({cond}):expiry-{e}-of-{N}:re-send-unchanged", tx_raw=[fin[0]["raw"]], fh=[], fins=[])
                obs["resends_checked"] = obs.get("resends_checked", 0) + 1
            else:
                if got[0] or got[2]:
                    p.viol.append({"clause": "expiry-behaviour-differs-from-retry-model", "when": f"finished-cancel({cond}):expiry-{N}:abandon",
                                   "got_tx": [wire.short(t["d"]) for t in got[0]], "got_fins": got[2], "want_tx": []})
                obs["abandons_checked"] = obs.get("abandons_checked", 0) + 1
                obs["abandons_of_cancel_response_checked"] = obs.get("abandons_of_cancel_response_checked", 0) + 1
                if D.h.state.name != "IDLE":
                    p.viol.append({"clause": "not-idle-after-abandon", "step": D.h.step.name, "cond": cond})
        p.quiet_for(ivl_ms, 3, "after-abandon", idle_step="IDLE")
        obs["expiries"] = p.expiries
        obs["cancel_response_scenarios"] = 1
        return p.viol, obs, trace_summary(w, None, 40)


def run_nak(case):
    N, Na, ivl_ms = case["N"], case["Na"], int(case["ivl"] * 1000)
    ack_ivl_ms = ivl_ms * 3 + 7
    cfg = {"mode": "ack", "size": 16, "seg": 4, "nak_limit": N, "nak_ivl": case["ivl"], "ack_limit": Na, "ack_ivl": ack_ivl_ms / 1000.0,
           "imm_nak": case["imm"], "fs": "mem", "maxpkt": case.get("maxpkt", 64)}
    gaps = case.get("gaps", 2 if (case["imm"] and not case["md_missing"]) else 1)
    obs = {}
    with World(cfg) as w:
        D = w.D
        tc = prep.tx_conf(w)
        data = w.data
        md = pdugen.raw("MD", tc, {"size": 16, "cks": "crc32", "src_name": w.src_path.as_posix(), "dst_name": w.dst_req_path.as_posix()})
        eof = pdugen.raw("EOF", tc, {"size": 16, "cksum": models.checksum("crc32", data)})

        def fd(i, n=4):
            return pdugen.raw("FD", tc, {"offset": 4 * i, "data": data[4 * i : 4 * i + n]})

        p = Probe(w, D)
        if not case["md_missing"]:
            p.call(md)
        p.call(fd(0))
        if gaps >= 2:
            p.call(fd(2, 2 if gaps >= 3 else 4))  # gap -> (immediate NAK for) [4,8)
        if gaps >= 3:
            p.call(fd(3, 2))  # second gap [10,12), tail gap [14,16)
        p.call(eof)
        p.viol.clear()
        # the idle call after the ACK(EOF) was retrieved starts the deferred procedure and issues the first NAK sequence
        tx, fh, fins = p.call()
        naks = [t for t in tx if t["d"].get("kind") == "NAK"]
        if not naks or fh or fins:
            return [{"clause": "harness-could-not-start-deferred-procedure", "tx": [wire.short(t["d"]) for t in tx], "step": D.h.step.name}], obs, None
        seq_raw = [t["raw"] for t in naks]
        obs["nak_sequence_pdus_%d" % min(len(naks), 4)] = 1
        nreq = sum(len(t["d"].get("reqs") or []) for t in naks)
        per = max(len(t["d"].get("reqs") or []) for t in naks)
        if len(naks) > 1 and nreq % per == 0:
            obs["nak_sequence_fills_last_pdu_exactly"] = 1
        t_reset = vclock.now_ms()
        prog = case["progress"]
        done_progress = False
        e = 1
        while e <= N:
            if prog and not done_progress and prog[0] == e:
                # progress arrives half an interval after expiry e-1 .. no: after the re-issue of expiry e
                got = p.expiry(t_reset, ivl_ms, f"nak:expiry-{e}")
                t_reset = vclock.now_ms()
                p.check(got, f"nak:expiry-{e}-of-{N}:re-issue", tx_raw=seq_raw, fh=[], fins=[])
                vclock.advance(ivl_ms // 2)
                what = prog[1]
                raw = {"fd": fd(1), "md": md, "fd_before_md": fd(1)}[what]
                tx, fh, fins = p.call(raw)
                if what == "fd_before_md":
                    # file data while metadata is missing is not progress for the deferred procedure in this implementation;
                    # the property only demands that progress resets the count, so no expectation on the counter here
                    obs["fd_before_md_probe"] = 1
                    return p.viol, obs, trace_summary(w, None, 40)
                if fh or fins or any(t["d"].get("kind") != "NAK" for t in tx):
                    p.viol.append({"clause": "progress-delivery-had-side-effects", "tx": [wire.short(t["d"]) for t in tx], "fh": fh, "fins": fins})
                t_reset = vclock.now_ms()
                # the re-issued sequence now excludes what arrived: it is learnt at the first re-issue below
                seq_raw = None
                done_progress = True
                obs["progress_resets_checked"] = 1
                e = 1
                continue
            if case.get("distract") == e:
                vclock.advance(t_reset + ivl_ms // 2 - vclock.now_ms())
                tx, gfh, gfins = p.call(eof)
                if [t["d"].get("kind") for t in tx] != ["ACK_EOF"] or gfh or gfins:
                    p.viol.append({"clause": "non-progress-pdu-not-answered-as-expected", "when": f"nak:before-expiry-{e}",
                                   "tx": [wire.short(t["d"]) for t in tx], "want": ["ACK_EOF"], "fh": gfh, "fins": gfins})
                p.expect_nothing("nak:call-after-non-progress-pdu")
                obs["non_progress_pdus_mid_interval"] = obs.get("non_progress_pdus_mid_interval", 0) + 1
            got = p.expiry(t_reset, ivl_ms, f"nak:expiry-{e}")
            t_reset = vclock.now_ms()
            if e < N:
                if seq_raw is None:
                    # first re-issue after progress: learn the new sequence, it must consist of NAK PDUs only and differ from the old one
                    tx, fh, fins = got
                    if not tx or fh or fins or any(t["d"].get("kind") != "NAK" for t in tx):
                        p.viol.append({"clause": "expiry-behaviour-differs-from-retry-model", "when": f"nak:after-progress:expiry-{e}-of-{N}:re-issue",
                                       "got_tx": [wire.short(t["d"]) for t in tx], "got_fh": fh, "got_fins": fins})
                    seq_raw = [t["raw"] for t in tx]
                else:
                    p.check(got, f"nak:expiry-{e}-of-{N}:re-issue", tx_raw=seq_raw, fh=[], fins=[])
                obs["resends_checked"] = obs.get("resends_checked", 0) + 1
            else:
                want = [{"kind": "FIN", "cond": "NAK_LIMIT_REACHED", "delivery": "DATA_INCOMPLETE"}]
                p.check(got, f"nak:expiry-{N}:limit-fault" + (":after-progress" if done_progress else ""), tx_desc=want,
                        fh=[("cancel", "NAK_LIMIT_REACHED")], fins=[_fin_of(got)])
                if got[2] and got[2][0][0] != "NAK_LIMIT_REACHED":
                    p.viol.append({"clause": "transaction-finished-without-nak-limit-condition", "fins": got[2]})
                obs["limit_faults_checked"] = obs.get("limit_faults_checked", 0) + 1
            e += 1
        fin = last_tx(w, "D", "FIN")
        if fin is None:
            p.viol.append({"clause": "no-finished-pdu-after-nak-limit"})
            return p.viol, obs, trace_summary(w, None, 40)
        for e in range(1, Na + 1):
            got = p.expiry(t_reset, ack_ivl_ms, f"fin-after-nak-limit:expiry-{e}")
            t_reset = vclock.now_ms()
            if e < Na:
                p.check(got, f"fin-after-nak-limit:expiry-{e}-of-{Na}:re-send", tx_raw=[fin["raw"]], fh=[], fins=[])
            else:
                p.check(got, f"fin-after-nak-limit:expiry-{Na}:abandon", tx_raw=[], fh=[("abandon", "NAK_LIMIT_REACHED")], fins=[])
                obs["abandons_checked"] = obs.get("abandons_checked", 0) + 1
        p.quiet_for(max(ivl_ms, ack_ivl_ms), 3, "after-abandon", idle_step="IDLE")
        obs["expiries"] = p.expiries
        return p.viol, obs, trace_summary(w, None, 50)


def _fin_of(got):
    return got[2][0] if got[2] else ("<none>",)


class CutPlan(Plan):
    def __init__(self, k, dirs):
        super().__init__()
        self.k, self.dirs = k, dirs
        self.after_cut = 0

    def on_emit(self, idx, item):
        d = "s2d" if item["side"] == "S" else "d2s"
        if idx >= self.k:
            self.after_cut += 1
            if self.dirs == "both" or self.dirs == d:
                self.applied.append((idx, "drop", wire.short(item["d"]), item["side"]))
                return []
        return [("now", item["raw"])]


def run_cut(case):
    N = case["N"]
    viol, obs = [], {}
    with World(case["cfg"]) as w:
        plan = CutPlan(case["k"], case["dirs"])
        budget = 2 * (2 * N + 2) + 4  # two procedures can run one after the other (NAK then Finished)
        r = Runner(w, plan=plan, max_expiries=budget, max_rounds=2000)
        try:
            w.put()
            outcome = r.run()
        except InternalError as e:
            return [{"clause": "call-raised-internal-error", "etype": type(e.exc).__name__, "trace": trace_summary(w, r, 60)}], obs, None
        s_step, d_step = w.S.h.step.name, w.D.h.step.name
        excluded = []
        if s_step == "WAITING_FOR_FINISHED":
            excluded.append("sender-awaiting-finished")
        if d_step in ("RECEIVING_FILE_DATA", "WAITING_FOR_METADATA") and not w.D.h.deferred_lost_segment_procedure_active:
            excluded.append("receiver-awaiting-file-data-or-eof")
        busy = [x for x, st in (("S", s_step), ("D", d_step)) if st != "IDLE"]
        not_excused = [x for x in busy if not ((x == "S" and "sender-awaiting-finished" in excluded) or (x == "D" and "receiver-awaiting-file-data-or-eof" in excluded))]
        if outcome != "done" and not_excused:
            viol.append({"clause": "handler-busy-after-bounded-expiries-of-silence", "sides": not_excused, "src_step": s_step, "dst_step": d_step,
                         "expiries": r.expiries, "trace": trace_summary(w, r, 70)})
        # no PDU is re-sent without bound: emissions after the cut are bounded by 2N+c per side
        bound = 2 * (2 * N + 2) + 2 * (case["cfg"]["size"] // 4 + 6)
        if plan.after_cut > bound:
            viol.append({"clause": "too-many-pdus-emitted-in-silence", "emitted": plan.after_cut, "bound": bound, "trace": trace_summary(w, r, 70)})
        obs["cut_runs"] = 1
        obs["cut_expiries"] = r.expiries
        obs["cut_excluded_waits"] = len(excluded)
        obs["cut_limit_faults"] = len([e for e in w.log.of("fh") if e["cond"] in ("POSITIVE_ACK_LIMIT_REACHED", "NAK_LIMIT_REACHED")])
        return viol, obs, {"outcome": outcome, "src": s_step, "dst": d_step, "excluded": excluded, "trace": trace_summary(w, r, 30)}


def run_case(case):
    if case["t"] == "eof":
        viol, obs, sample = run_positive_ack(case, "S")
        obs["eof_scenarios"] = 1
    elif case["t"] == "fin":
        viol, obs, sample = run_positive_ack(case, "D")
        obs["fin_scenarios"] = 1
    elif case["t"] == "nak":
        viol, obs, sample = run_nak(case)
        obs["nak_scenarios"] = 1
    elif case["t"] == "cancel_mid":
        viol, obs, sample = run_cancel_mid(case)
        obs["cancel_mid_scenarios"] = 1
    elif case["t"] == "cancel_resp":
        viol, obs, sample = run_cancel_resp(case)
    else:
        viol, obs, sample = run_cut(case)
    for v in viol:
        v["case"] = {k: v2 for k, v2 in case.items() if k != "cfg"}
    nontrivial = obs.get("expiries", 0) > 0 or obs.get("cut_expiries", 0) > 0
    return {"viol": viol, "sig": case if nontrivial else None, "obs": obs, "sample": sample}


def exhaustive(tier):
    return False


REQUIRED = {"eof_scenarios": 20, "fin_scenarios": 20, "nak_scenarios": 20, "limit_faults_checked": 50, "abandons_checked": 50,
            "resends_checked": 50, "eof_cancel_mid_file_resends_checked": 10, "scenarios_on_reused_handler_with_retuned_interval": 10, "scenarios_next_to_other_entity_with_own_fault_table": 10, "progress_resets_checked": 4, "nak_sequence_fills_last_pdu_exactly": 10, "nak_sequence_pdus_1": 10, "nak_sequence_pdus_2": 10, "recovered_runs": 10, "non_progress_pdus_mid_interval": 20, "non_progress_pdus_with_expiry": 10, "refused_put_requests_mid_interval": 10, "cut_runs": 50, "cut_limit_faults": 10,
            "cancel_response_scenarios": 50, "abandons_of_cancel_response_checked": 50}
