"""C07 - the source emits a conformant, complete and size-bounded PDU stream."""
from __future__ import annotations

import random
from pathlib import Path

from .. import models, pdugen, prep, vclock, wire
from ..rec import MemFilestore
from ..world import CKS, PROTO_EXC, World

PROP = "C07"
LEVEL = "exploration"
TECHNIQUE = "runtime monitoring of the real SourceHandler against an independent stream model: every PDU retrieved after every state_machine call is decoded by an independent header/field decoder and compared with a re-derivation from the request and the MIB (Metadata fields, ascending exact tiling with the file's bytes, per-call File Data count, effective segment length, EOF size/checksum by reference checksum models, header invariants, PDU CRC-16 recomputed, length bounds); ideal scripted peer answers ACK(EOF)/Finished"
RULE = (
    "a case = one put request on a fresh sender under a configuration drawn from size x content x max_file_segment_len (None or value) x max_packet_len "
    "(from the smallest that holds an EOF PDU up to 4096; a band around every boundary) x PDU CRC x source/destination id widths {1,2,4,8} x sequence width "
    "{8,16,32} x checksum type x mode x closure, with mode/closure given in the request, left to the MIB, or contradicting the MIB; quick adds the head of a "
    "synthetic 4 GiB+5 file (large-file flag), thorough streams that file completely.  Non-trivial = the stream contained at least one File Data PDU or the "
    "EOF of an empty file was checked; distinct = distinct (configuration) cells"
)
ASSUMPTIONS = [
    "configurations whose max_packet_len cannot hold an EOF PDU (header + 10 + 2*crc) are not generated: no implementation can satisfy the length clause there",
    "the ideal peer acknowledges the EOF and sends the Finished PDU as soon as the EOF was emitted; PDUs reach it as bytes",
    "the >4 GiB file exists only in a synthetic in-memory filestore (content = function of the offset, null checksum)",
]

IDWS = [1, 2, 4, 8]
SEQWS = [8, 16, 32]
CKSS = ["null", "modular", "crc32", "crc32c"]
BIG = (1 << 32) + 5


class BigFileStore(MemFilestore):
    """claims one file of BIG bytes whose content is a function of the offset"""

    def __init__(self, path, size=BIG):
        super().__init__()
        self.big = self.k(path)
        self.size = size
        self.files[self.big] = bytearray()

    @staticmethod
    def content(offset: int, n: int) -> bytes:
        return bytes(((o * 2654435761) >> 7) & 0xFF for o in range(offset, offset + n)) if n <= 64 else BigFileStore._fast(offset, n)

    @staticmethod
    def _fast(offset: int, n: int) -> bytes:
        # cheap deterministic content for long reads: 8-byte big endian offset of the block start, repeated
        blk = offset.to_bytes(8, "big")
        return (blk * (n // 8 + 1))[:n]

    def file_size(self, file):
        if self.k(file) == self.big:
            return self.size
        return super().file_size(file)

    def read_data(self, file, offset, read_len=None):
        if self.k(file) == self.big:
            offset = offset or 0
            n = max(0, min(read_len if read_len is not None else self.size, self.size - offset))
            return self.content(offset, n)
        return super().read_data(file, offset, read_len)


def gen_cfg(rng: random.Random):
    sidw, didw = rng.choice(IDWS), rng.choice(IDWS)
    if rng.random() < 0.5:
        didw = sidw
    idw = max(sidw, didw)
    seqw = rng.choice(SEQWS)
    crc = rng.random() < 0.5
    mn = models.eof_len(idw, seqw // 8, crc)
    kind = rng.random()
    if kind < 0.35:
        maxpkt = mn + rng.randrange(0, 12)
    elif kind < 0.8:
        maxpkt = rng.randrange(mn, 160)
    else:
        maxpkt = rng.choice([255, 256, 1024, 4096])
    derived = models.max_fd_payload(maxpkt, idw, seqw // 8, crc)
    segk = rng.random()
    if segk < 0.3:
        seg = None
    elif segk < 0.6:
        seg = max(1, derived + rng.randrange(-3, 4))
    else:
        seg = rng.choice([1, 2, 3, 5, 8, 16, 64, 200, 5000])
    eff = derived if seg is None else min(seg, derived)
    if eff > 300:
        # keep files small
        seg = 300 - rng.randrange(0, 40)
        eff = min(seg, derived)
    nseg = rng.choice([0, 1, 1, 2, 3, 7, 12])
    size = max(0, nseg * eff + rng.choice([-1, 0, 0, 1, eff // 2]))
    if rng.random() < 0.1:
        size = rng.choice([0, 1])
    mode = rng.choice(["ack", "unack"])
    closure = rng.random() < 0.5
    cfg = {
        "mode": mode, "closure": closure, "seg": seg, "maxpkt": maxpkt, "crc": crc, "cks": rng.choice(CKSS), "src_idw": sidw, "dst_idw": didw,
        "seqw": seqw, "size": size, "content": rng.choice([0, 1, 2, 3, "zeros", "ones", "ramp"]), "fs": rng.choice(["native", "mem"]),
        "seq_start": rng.choice([0, 0, 1, 5, 200, 255]) if seqw > 8 else rng.choice([0, 1, 200]),
        "dest": rng.choice(["file", "dir"]),
    }
    # who decides mode / closure: request, MIB, or request contradicting the MIB
    how = rng.choice(["req", "mib", "contradict"])
    if how == "mib":
        cfg["req_mode"] = None
        cfg["req_closure"] = None
    elif how == "contradict":
        cfg["rc_at_src"] = {"default_transmission_mode": "unack" if mode == "ack" else "ack", "closure_requested": not closure}
    if rng.random() < 0.05:
        cfg["metadata_only"] = True
    if rng.random() < 0.1:
        cfg.update({"src_name": "übergröße 文件.bin", "dst_name": "зона 51 ☃.dat"})  # names with non-ASCII characters and blanks (multi-byte in UTF-8)
    if rng.random() < 0.3:
        cfg["scribble_pdus"] = True  # the user edits (the header of) every PDU object after it has taken its bytes
    if rng.random() < 0.2:
        # the optional parts of a put request (they travel in the Metadata PDU, which is not bounded by max_packet_len)
        cfg.update(rng.choice([{"opts": {"flow_label": ""}}, {"opts": {"flow_label": "0a0b", "fs_requests": 2}}, {"opts": {"overrides": 3}},
                               {"msgs": [["raw", "80818283848586"], ["raw", "fffefdfcfb"]]}, {"msgs": [["orig", 5, 2, 7, 2]], "opts": {"fs_requests": 1, "overrides": 1, "flow_label": "ff"}},
                               {"msgs": [["proxy_put_request", 3, "remote/src.bin", "local/dst.bin"], ["raw", "00"]]}]))
    return cfg, eff


def gen_cases(tier, seed):
    rng = random.Random(7007 + seed)
    n = 15000 if tier == "quick" else 250000
    cases = []
    for _ in range(n):
        cfg, eff = gen_cfg(rng)
        cases.append({"t": "grid", "cfg": cfg, "eff": eff, "peer_lag": rng.choice([0, 0, 1, 3]), "eof_resends": rng.choice([0, 0, 0, 1, 2]),
                      "second": rng.random() < 0.25, "busy_put": rng.choice([None, None, None, 0, 1, 2, 3, 5])})
    # over-long names: a request is either refused, or accepted and then announced by a Metadata PDU which carries the names
    for which in ("source", "dest"):
        for n in (255, 256, 257, 300, 1000):
            for mode in ("ack", "unack"):
                cases.append({"t": "long_name", "which": which, "n": n, "mode": mode})
    # large file
    for i, (mode, crc, idw, seqw) in enumerate([("ack", False, 2, 16), ("unack", True, 1, 8), ("ack", True, 4, 32), ("unack", False, 8, 16)]):
        for maxpkt in ((64, 4096) if tier == "quick" else (64, 1000, 4096)):
            cases.append({"t": "big_head", "mode": mode, "crc": crc, "idw": idw, "seqw": seqw, "maxpkt": maxpkt, "seg": None if i % 2 else 37})
            # the boundary of the large-file flag: 2^32-1 bytes still fit the 32-bit fields, 2^32 bytes do not
            cases.append({"t": "big_head", "mode": mode, "crc": crc, "idw": idw, "seqw": seqw, "maxpkt": maxpkt, "seg": None if i % 2 else 37, "bigsize": (1 << 32) - 1})
            cases.append({"t": "big_head", "mode": mode, "crc": crc, "idw": idw, "seqw": seqw, "maxpkt": maxpkt, "seg": None if i % 2 else 37, "bigsize": 1 << 32})
    if tier == "thorough":
        cases.append({"t": "big_full", "mode": "ack", "crc": False, "idw": 2, "seqw": 16, "maxpkt": 65000, "seg": None})
        cases.append({"t": "big_full", "mode": "unack", "crc": True, "idw": 1, "seqw": 8, "maxpkt": 65535, "seg": 60001})
    return cases


def check_common(d, raw, want, viol, where):
    """header invariants of every PDU of the transaction"""
    h = d.get("h")
    if "error" in d or h is None:
        viol.append({"clause": "pdu-not-parsable", "where": where, "error": d.get("error"), "kind": d.get("kind")})
        return False
    bad = {}
    for k in ("src", "dst", "seq", "idw", "seqw", "unack", "crc", "large"):
        if h[k] != want[k]:
            bad[k] = (h[k], want[k])
    if h["towards_sender"]:
        bad["direction"] = ("towards_sender", "towards_receiver")
    if h["version"] != 1:
        bad["version"] = (h["version"], 1)
    if h["dlen"] != len(raw) - h["hlen"]:
        bad["pdu_data_field_length"] = (h["dlen"], len(raw) - h["hlen"])
    if h["crc"] and models.crc16_ccitt_false(raw[:-2]) != int.from_bytes(raw[-2:], "big"):
        bad["pdu_crc16"] = (raw[-2:].hex(), f"{models.crc16_ccitt_false(raw[:-2]):04x}")
    if bad:
        viol.append({"clause": "pdu-header-field-differs", "where": where, "kind": d["kind"], "fields(got,want)": bad})
        return False
    return True


def run_stream(w: World, case, data_fn, size, eff, cks, want_hdr, md_want, peer_lag, max_calls, head_only=False, eof_resends=0, before_final_drain=None,
               already_put=False):
    """Drives the sender call by call; returns (viol, obs).  before_final_drain: called when the handler went idle while PDUs of the
    finished transaction are still in its queue, *before* they are retrieved (the user may issue its next put request first)."""
    viol, obs = [], {}
    S = w.S
    tc = prep.tx_conf(w, seq=want_hdr["seq"])
    maxpkt = w.cfg["maxpkt"]
    mark_seq = w.log.seq
    try:
        ok = True if already_put else w.put()
    except Exception as e:  # noqa: BLE001
        return [{"clause": "put-request-raised", "etype": type(e).__name__, "msg": str(e)[:200]}], obs
    if not ok:
        return [{"clause": "put-request-refused"}], obs
    next_put_done = False
    phase = "md"
    next_off = 0
    eof_seen_call = None
    ncalls = 0
    acked = fin_sent = False
    ack_mode = not want_hdr["unack"]
    fd_count = 0
    first_eof = None
    while ncalls < max_calls:
        pdu_in = None
        if case.get("busy_put") == ncalls and S.h.state.name == "BUSY":
            # the user issues another (valid) put request, towards a differently configured third entity, while this transaction is
            # running: it is refused and the stream of the running transaction is not affected
            try:
                acc = w.put_to_third()
            except Exception as e:  # noqa: BLE001
                acc = type(e).__name__
            if acc is not False:
                viol.append({"clause": "put-request-while-busy-not-refused", "returned": acc, "before_call": ncalls})
                break
            obs["refused_put_requests_during_stream"] = 1
        if eof_seen_call is not None and ack_mode and not acked and eof_resends > 0 and first_eof is not None and ncalls - eof_seen_call > peer_lag:
            # the ACK(EOF) is late: at the expiry of the positive ACK timer the very same EOF PDU must be emitted again
            eof_resends -= 1
            S.outbox.clear()
            vclock.use(w.clock)
            vclock.advance_to_next_expiry()
            try:
                S.sm()
            except Exception as e:  # noqa: BLE001
                viol.append({"clause": "state-machine-raised-at-ack-timer-expiry", "etype": type(e).__name__, "msg": str(e)[:150]})
                break
            ncalls += 1
            max_calls += 1
            got = [it["raw"] for it in S.outbox]
            if got != [first_eof]:
                viol.append({"clause": "re-sent-eof-differs-from-first-eof", "got": [wire.short(it["d"]) for it in S.outbox], "first": wire.short(wire.describe(first_eof)),
                             "got_hex": [g.hex() if g else None for g in got][:2], "first_hex": first_eof.hex()})
                break
            obs["eof_resends_checked"] = obs.get("eof_resends_checked", 0) + 1
            continue
        if eof_seen_call is not None and ncalls - eof_seen_call > peer_lag:
            if ack_mode and not acked:
                pdu_in = pdugen.raw("ACK_EOF", tc)
                acked = True
            elif (ack_mode or md_want["closure"]) and not fin_sent:
                pdu_in = pdugen.raw("FIN", tc)
                fin_sent = True
        S.outbox.clear()
        try:
            S.autodrain = before_final_drain is None
            try:
                if pdu_in is None:
                    S.sm()
                else:
                    e = prep.feed(S, pdu_in)
                    if e is not None:
                        viol.append({"clause": "peer-pdu-refused", "etype": type(e).__name__, "pdu": wire.kind_of(pdu_in), "step": S.h.step.name})
                        break
            finally:
                S.autodrain = True
            if before_final_drain is not None:
                if S.h.state.name == "IDLE" and len(S.h._pdus_to_be_sent) > 0 and not next_put_done:
                    err = before_final_drain()
                    next_put_done = True
                    obs["next_put_request_before_last_pdus_were_retrieved"] = 1
                    if err:
                        viol.append(err)
                        break
                S.drain()
        except PROTO_EXC as e:
            viol.append({"clause": "state-machine-raised", "etype": type(e).__name__, "msg": str(e)[:150]})
            break
        except Exception as e:  # noqa: BLE001
            viol.append({"clause": "state-machine-raised-internal-error", "etype": type(e).__name__, "msg": str(e)[:150]})
            break
        ncalls += 1
        new_fd_this_call = 0
        for item in S.outbox:
            raw, d = item["raw"], item["d"]
            where = f"call#{ncalls}"
            if raw is None:
                viol.append({"clause": "pdu-not-packable", "where": where, "error": d.get("error")})
                continue
            if not check_common(d, raw, want_hdr, viol, where):
                continue
            k = d["kind"]
            if phase == "md":
                if k != "MD":
                    viol.append({"clause": "first-pdu-not-metadata", "got": wire.short(d)})
                else:
                    got = {x: d.get(x) for x in md_want}
                    if got != md_want:
                        viol.append({"clause": "metadata-pdu-fields", "got": got, "want": md_want})
                    obs["metadata_checked"] = 1
                phase = "fd" if not w.cfg["metadata_only"] else "done_md_only"
                if w.cfg["metadata_only"]:
                    # no EOF in a metadata-only transaction: the peer answers the Metadata PDU (Finished only if closure was requested)
                    eof_seen_call, acked, fin_sent = ncalls, True, not md_want["closure"]
                continue
            if k == "FD":
                if phase != "fd":
                    viol.append({"clause": "file-data-after-eof", "fd": wire.short(d)})
                    continue
                fd_count += 1
                new_fd_this_call += 1
                if d["offset"] != next_off:
                    viol.append({"clause": "file-data-not-ascending-exact-tiling", "offset": d["offset"], "expected_offset": next_off})
                if d["dlen"] > eff or d["dlen"] == 0:
                    viol.append({"clause": "file-data-longer-than-effective-segment-length", "dlen": d["dlen"], "effective": eff})
                if d["data"] != data_fn(d["offset"], d["dlen"]):
                    viol.append({"clause": "file-data-payload-differs-from-file", "offset": d["offset"], "dlen": d["dlen"]})
                if d["offset"] + d["dlen"] > size:
                    viol.append({"clause": "file-data-beyond-file-size", "offset": d["offset"], "dlen": d["dlen"], "size": size})
                if len(raw) > maxpkt:
                    viol.append({"clause": "file-data-pdu-exceeds-max-packet-len", "len": len(raw), "max": maxpkt})
                # the tiling uses full segments except for the last one
                if d["dlen"] < eff and d["offset"] + d["dlen"] < size:
                    viol.append({"clause": "short-segment-before-end-of-file", "offset": d["offset"], "dlen": d["dlen"], "effective": eff})
                next_off = max(next_off, d["offset"] + d["dlen"])
                if d["dlen"] == eff:
                    obs["full_segments"] = obs.get("full_segments", 0) + 1
                if len(raw) == maxpkt:
                    obs["fd_pdu_exactly_max_packet_len"] = obs.get("fd_pdu_exactly_max_packet_len", 0) + 1
            elif k == "EOF":
                if phase != "fd":
                    viol.append({"clause": "unexpected-eof", "phase": phase})
                    continue
                phase = "eof"
                eof_seen_call = ncalls
                first_eof = raw
                if next_off != size:
                    viol.append({"clause": "eof-before-file-data-complete", "tiled_up_to": next_off, "size": size})
                want_ck = None if cks is None else cks
                got = (d.get("cond"), d.get("size"), d.get("cksum"))
                want = ("NO_ERROR", size, want_ck)
                if got[:2] != want[:2] or (want_ck is not None and got[2] != want_ck):
                    viol.append({"clause": "eof-size-or-checksum", "got": got, "want": want})
                if len(raw) > maxpkt:
                    viol.append({"clause": "eof-pdu-exceeds-max-packet-len", "len": len(raw), "max": maxpkt})
                if d.get("fault_loc") is not None:
                    viol.append({"clause": "eof-no-error-with-fault-location"})
                obs["eof_checked"] = 1
                if size == 0:
                    obs["empty_file_eof_checked"] = 1
            elif k == "ACK_FIN":
                if not (ack_mode and fin_sent):
                    viol.append({"clause": "unexpected-ack-finished"})
                if len(raw) > maxpkt:
                    viol.append({"clause": "ack-pdu-exceeds-max-packet-len", "len": len(raw), "max": maxpkt})
                if d.get("cond") != "NO_ERROR":
                    viol.append({"clause": "ack-finished-condition", "got": d.get("cond")})
                obs["ack_finished_checked"] = 1
            else:
                viol.append({"clause": "unexpected-pdu-kind-in-stream", "got": wire.short(d), "phase": phase})
        if new_fd_this_call > 1:
            viol.append({"clause": "more-than-one-file-data-pdu-per-call", "n": new_fd_this_call, "call": ncalls})
        if size >= (1 << 31):
            # 66 000 PDUs of 64 KiB each must not be kept in the event log
            w.log.events[:] = [e for e in w.log.events if e["kind"].startswith("ind_")]
        if head_only and fd_count >= 3:
            obs["head_only"] = 1
            return viol, obs
        if viol and len(viol) > 6:
            break
        if S.h.state.name == "IDLE" or next_put_done:
            break
    obs["calls"] = ncalls
    obs["file_data_pdus"] = fd_count
    if not viol:
        if next_put_done:
            if not w.cfg["metadata_only"] and phase != "eof":
                viol.append({"clause": "stream-incomplete-no-eof", "phase": phase, "next_put_request_issued_before_retrieval": True})
        elif S.h.state.name != "IDLE":
            viol.append({"clause": "sender-not-idle-after-complete-stream", "step": S.h.step.name, "calls": ncalls})
        elif not w.cfg["metadata_only"] and phase != "eof":
            viol.append({"clause": "stream-incomplete-no-eof", "phase": phase})
        else:
            fins = [e["fin"] for e in w.log.of("ind_finished", "S") if e["seq"] >= mark_seq]
            if len(fins) != 1 or fins[0][0] != "NO_ERROR":
                viol.append({"clause": "sender-transaction-finished", "fins": fins})
    return viol, obs


def S_idle(w):
    return w.S.h.state.name == "IDLE"


def run_long_name(case):
    from cfdppy.request import PutRequest

    viol, obs = [], {"long_name_requests": 1}
    with World({"mode": case["mode"], "size": 5, "fs": "mem"}) as w:
        base = w.root / "srcdir" if case["which"] == "source" else w.root / "dstdir"
        fill = case["n"] - len(base.as_posix()) - 1
        long_path = base / "/".join(["p" * 100] * (fill // 101) + ["q" * (fill - 101 * (fill // 101))]) if fill > 0 else base / "x"
        if len(long_path.as_posix()) != case["n"]:
            long_path = base / ("z" * max(1, fill))
        if case["which"] == "source":
            w.write_raw("src", long_path, w.data)
            req = PutRequest(w.dst_id, long_path, w.dst_req_path, None, None)
        else:
            req = PutRequest(w.dst_id, w.src_path, long_path, None, None)
        try:
            accepted = w.S.put(req)
        except PROTO_EXC:
            obs["long_name_requests_refused"] = 1
            return {"viol": viol, "obs": obs, "sig": case, "sample": None}
        except Exception as e:  # noqa: BLE001
            return {"viol": [{"clause": "put-request-raised-internal-error", "etype": type(e).__name__, "msg": str(e)[:120], "name_len": len(long_path.as_posix())}], "obs": obs, "sig": case, "sample": None}
        if accepted:
            try:
                w.S.sm()
            except Exception as e:  # noqa: BLE001
                viol.append({"clause": "accepted-put-request-emits-no-metadata-pdu", "etype": type(e).__name__, "msg": str(e)[:120], "name_len": len(long_path.as_posix()), "which": case["which"]})
            else:
                mds = [x["d"] for x in w.S.outbox if x["d"].get("kind") == "MD"]
                want = long_path.as_posix()
                got = (mds[0].get("src_name") if case["which"] == "source" else mds[0].get("dst_name")) if mds else None
                if got != want:
                    viol.append({"clause": "metadata-pdu-does-not-carry-the-true-name", "got_len": None if got is None else len(got), "want_len": len(want)})
                else:
                    obs["long_name_requests_announced_correctly"] = 1
    return {"viol": viol, "obs": obs, "sig": case, "sample": None}


def run_case(case):
    if case["t"] == "long_name":
        return run_long_name(case)
    if case["t"] == "grid":
        cfg = case["cfg"]
        with World(cfg) as w:
            c = w.cfg
            idw = max(c["src_idw"], c["dst_idw"])
            rc = c["rc_at_src"]
            mode = c["mode"] if c["req_mode"] == "cfg" else rc.get("default_transmission_mode", c["mode"])
            closure = c["closure"] if c["req_closure"] == "cfg" else rc.get("closure_requested", c["closure"])
            want_hdr = {"src": 1, "dst": 2, "seq": c["seq_start"] % (1 << c["seqw"]), "idw": idw, "seqw": c["seqw"] // 8, "unack": mode == "unack",
                        "crc": c["crc"], "large": False}
            if c["metadata_only"]:
                md_want = {"size": 0, "src_name": None, "dst_name": None, "closure": closure, "cktype": "NULL_CHECKSUM"}
                size, data = 0, b""
                cks = None
            else:
                md_want = {"size": len(w.data), "src_name": w.src_path.as_posix(), "dst_name": w.dst_req_path.as_posix(), "closure": closure,
                           "cktype": {"null": "NULL_CHECKSUM", "modular": "MODULAR", "crc32": "CRC_32", "crc32c": "CRC_32C"}[c["cks"]]}
                size, data = len(w.data), w.data
                cks = models.checksum(c["cks"], data).hex()
            nseg = -(-size // max(1, case["eff"]))
            second_box = {}
            obs2 = {}

            def prepare_second():
                base = second_box.get("base_data", data)
                data2 = bytes((b * 7 + 3) & 0xFF for b in base) + b"tail"[: size % 3]
                w.data = data2
                w.write_raw("src", w.src_path, data2)
                want2 = dict(want_hdr, seq=(want_hdr["seq"] + 1) % (1 << c["seqw"]))
                md2 = dict(second_box.get("md_want", md_want), size=len(data2))
                eff2, cks_kind = case["eff"], c["cks"]
                if case["cfg"]["size"] % 2:
                    # the user re-tunes the remote entity configuration between the two transfers: CRC flag, checksum type, packet length
                    rc_obj = w.rc_dst_at_src
                    crc2, maxpkt2 = (not c["crc"]), c["maxpkt"] + 7
                    cks_kind = {"null": "crc32", "crc32": "modular", "modular": "crc32c", "crc32c": "null"}[c["cks"]]
                    rc_obj.crc_on_transmission = crc2
                    rc_obj.crc_type = CKS[cks_kind]
                    rc_obj.max_packet_len = maxpkt2
                    w.cfg["maxpkt"] = maxpkt2
                    w.cfg["crc"] = crc2
                    derived2 = models.max_fd_payload(maxpkt2, idw, c["seqw"] // 8, crc2)
                    eff2 = derived2 if c["seg"] is None else min(c["seg"], derived2)
                    want2["crc"] = crc2
                    md2["cktype"] = {"null": "NULL_CHECKSUM", "modular": "MODULAR", "crc32": "CRC_32", "crc32c": "CRC_32C"}[cks_kind]
                    obs2["second_stream_after_mib_change"] = 1
                if c["req_mode"] is None and c["req_closure"] is None and not c["metadata_only"] and "base_data" not in second_box:
                    # mode and closure were left to the MIB: the user flips both defaults of this destination and hands the *same* PutRequest
                    # object in again; the second stream follows the configuration as it is now
                    from ..world import MODES

                    now_unack = not want_hdr["unack"]
                    w.rc_dst_at_src.default_transmission_mode = MODES["unack" if now_unack else "ack"]
                    w.rc_dst_at_src.closure_requested = not md_want["closure"]
                    want2["unack"] = now_unack
                    md2["closure"] = not md_want["closure"]
                    w.reuse_last_request = True
                    obs2["second_stream_with_same_request_object_after_mib_flip"] = 1
                second_box["params"] = (data2, want2, md2, eff2, models.checksum(cks_kind, data2).hex())

            def put_second_early():
                # the user issues its next put request while the last PDU(s) of the finished transaction still wait in the handler's queue
                prepare_second()
                try:
                    ok2 = w.put()
                except Exception as e:  # noqa: BLE001
                    return {"clause": "put-request-raised", "etype": type(e).__name__, "msg": str(e)[:200], "before_last_pdus_were_retrieved": True}
                if not ok2:
                    return {"clause": "put-request-refused", "before_last_pdus_were_retrieved": True}
                second_box["put_done"] = True
                return None

            early = bool(case.get("second")) and not c["metadata_only"] and case["cfg"]["size"] % 3 == 0 and not case.get("eof_resends")
            maxpkt_first = c["maxpkt"]
            viol, obs = run_stream(w, case, lambda o, n: data[o : o + n], size, case["eff"], cks, want_hdr, md_want, case["peer_lag"], nseg + 14 + case["peer_lag"] * 2,
                                   eof_resends=case.get("eof_resends", 0), before_final_drain=put_second_early if early else None)
            obs.update(obs2)
            if case.get("second") and not viol and c["metadata_only"]:
                # a metadata-only request is followed by an ordinary file transfer on the same sender object
                if S_idle(w):
                    w.cfg["metadata_only"] = False
                    md_want = {"size": len(w.data), "src_name": w.src_path.as_posix(), "dst_name": w.dst_req_path.as_posix(), "closure": closure,
                               "cktype": {"null": "NULL_CHECKSUM", "modular": "MODULAR", "crc32": "CRC_32", "crc32c": "CRC_32C"}[c["cks"]]}
                    data = bytes((i * 13 + 5) & 0xFF for i in range(c["size"]))
                    second_box["base_data"], second_box["md_want"] = data, md_want
                    obs["file_stream_after_metadata_only_request"] = 1
            if case.get("second") and not viol and not w.cfg["metadata_only"]:
                # the same sender object handles a second put request for a file with other content (same configuration, next sequence number)
                if second_box.get("params") is None:
                    prepare_second()
                data2, want2, md2, eff2, cks2 = second_box["params"]
                nseg2 = -(-len(data2) // max(1, eff2))
                v2, o2 = run_stream(w, case, lambda o, n: data2[o : o + n], len(data2), eff2, cks2, want2, md2, case["peer_lag"], nseg2 + 14 + case["peer_lag"] * 2,
                                    eof_resends=case.get("eof_resends", 0), already_put=bool(second_box.get("put_done")))
                for x in v2:
                    x["second_put_on_same_sender"] = True
                    x["second_put_before_last_pdus_of_first_were_retrieved"] = bool(second_box.get("put_done"))
                viol += v2
                obs.update(obs2)
                obs["second_streams_on_same_sender"] = 1
                obs["eof_resends_checked"] = obs.get("eof_resends_checked", 0) + o2.get("eof_resends_checked", 0)
            obs["mode_" + mode] = 1
            obs["closure_from_" + ("request" if c["req_closure"] == "cfg" else "mib")] = 1
            obs["request_contradicts_mib"] = int(bool(rc))
            obs["mixed_id_width"] = int(c["src_idw"] != c["dst_idw"])
            obs["streams_of_requests_with_options_or_messages"] = int(bool(c.get("opts") or c.get("msgs")))
            obs["pdu_crc_on"] = int(c["crc"])
            obs["segment_len_from_" + ("max_packet_len" if (c["seg"] is None or c["seg"] > case["eff"]) else "max_file_segment_len")] = 1
            obs["cks_" + c["cks"]] = 1
            for v in viol:
                v["cfg"] = {k: c[k] for k in ("mode", "closure", "seg", "maxpkt", "crc", "cks", "src_idw", "dst_idw", "seqw", "size", "seq_start", "req_mode", "req_closure", "rc_at_src", "metadata_only")}
                v["effective_segment_len"] = case["eff"]
            sig = {k: v for k, v in cfg.items() if k != "content"} if (obs.get("file_data_pdus") or obs.get("empty_file_eof_checked")) else None
            sample = None
            if sig and obs.get("file_data_pdus", 0) >= 2:
                sample = {"stream": [wire.short(e["d"]) for e in w.log.of("tx", "S")][:12], "effective_segment_len": case["eff"]}
            return {"viol": viol, "obs": obs, "sig": sig, "sample": sample}
    # large file
    idw, seqw, crc = case["idw"], case["seqw"], case["crc"]
    cfg = {"mode": case["mode"], "closure": False, "seg": case["seg"], "maxpkt": case["maxpkt"], "crc": crc, "cks": "null", "src_idw": idw, "dst_idw": idw,
           "seqw": seqw, "size": 0, "fs": "mem"}
    with World(cfg) as w:
        bigsize = case.get("bigsize", BIG)
        large = bigsize > (1 << 32) - 1
        big = BigFileStore(w.src_path, bigsize)
        big.dirs = set(w.src_inner.dirs)
        w.src_fs.inner = big
        derived = models.max_fd_payload(case["maxpkt"], idw, seqw // 8, crc, large=large)
        eff = derived if case["seg"] is None else min(case["seg"], derived)
        want_hdr = {"src": 1, "dst": 2, "seq": 0, "idw": idw, "seqw": seqw // 8, "unack": case["mode"] == "unack", "crc": crc, "large": large}
        md_want = {"size": bigsize, "src_name": w.src_path.as_posix(), "dst_name": w.dst_req_path.as_posix(), "closure": False, "cktype": "NULL_CHECKSUM"}
        head = case["t"] == "big_head"
        viol, obs = run_stream(w, case, BigFileStore.content, bigsize, eff, "00000000", want_hdr, md_want, 0, (bigsize // eff) + 20, head_only=head)
        obs["large_flag_boundary_cases"] = int("bigsize" in case)
        obs["large_file_cases"] = 1
        if not head:
            obs["large_file_streamed_completely"] = 1
        for v in viol:
            v["case"] = case
        sample = {"stream_head": [wire.short(e["d"]) for e in w.log.of("tx", "S")][:4], "effective_segment_len": eff}
        return {"viol": viol, "obs": obs, "sig": case, "sample": sample}


REQUIRED = {"metadata_checked": 100, "eof_checked": 100, "empty_file_eof_checked": 5, "ack_finished_checked": 20, "full_segments": 200,
            "fd_pdu_exactly_max_packet_len": 20, "large_file_cases": 4, "large_flag_boundary_cases": 8, "mixed_id_width": 20, "request_contradicts_mib": 20, "eof_resends_checked": 100, "second_streams_on_same_sender": 100, "second_stream_after_mib_change": 30, "refused_put_requests_during_stream": 100, "long_name_requests_refused": 8, "long_name_requests_announced_correctly": 2, "next_put_request_before_last_pdus_were_retrieved": 50, "second_stream_with_same_request_object_after_mib_flip": 100, "file_stream_after_metadata_only_request": 10, "streams_of_requests_with_options_or_messages": 500}
