"""C20 - PDU routing agrees with what each handler accepts (finite space, enumerated completely)."""
from __future__ import annotations

import itertools

from spacepackets.cfdp.pdu import TransactionStatus

from cfdppy.handler.common import PacketDestination, get_packet_destination
from cfdppy.handler.dest import acknowledge_inactive_eof_pdu

from .. import pdugen, prep, wire
from ..world import PROTO_EXC, World, state_snapshot

PROP = "C20"
LEVEL = "exploration"
TECHNIQUE = "runtime monitoring by complete enumeration: every PDU type x acked directive x direction flag x mode x id width x CRC flag is passed (as parsed bytes) to get_packet_destination and to real source/destination handlers prepared in every resting step; verdict from returned route, raised exception class and state snapshots; acknowledge_inactive_eof_pdu output decoded independently"
RULE = (
    "cases = (PDU kind in MD/FD/EOF/FIN/ACK(EOF)/ACK(FIN)/NAK/KA/PROMPT) x direction flag x PDU mode x entity-id width {1,2,4,8} x CRC flag x "
    "handler (source in 4 resting steps, destination in 7 resting steps) x handler transaction mode; plus acknowledge_inactive_eof_pdu over condition "
    "codes x status x widths x CRC x mode.  The space is finite and enumerated completely on both tiers.  Non-trivial = every case (each exercises a "
    "distinct cell); distinct = distinct cells"
)
ASSUMPTIONS = [
    "PDUs are delivered as parsed bytes (spacepackets PduFactory + documented EOF shim); the direction flag is set on the header before packing",
    "'refused' = state_machine raises one of the library's protocol exceptions and leaves the public state unchanged",
]
TABLE = {"FD": "DEST", "MD": "DEST", "EOF": "DEST", "PROMPT": "DEST", "ACK_FIN": "DEST", "FIN": "SRC", "NAK": "SRC", "KA": "SRC", "ACK_EOF": "SRC"}
SRC_STEPS = ["SENDING_FILE_DATA", "WAITING_FOR_EOF_ACK", "WAITING_FOR_FINISHED", "IDLE_FRESH"]
DST_STEPS = ["IDLE_FRESH", "RECEIVING_FILE_DATA", "WAITING_FOR_METADATA", "WAITING_FOR_MISSING_DATA",
             "RECV_FILE_DATA_WITH_CHECK_LIMIT_HANDLING", "WAITING_FOR_FINISHED_ACK", "IDLE_AFTER_TRANSACTION"]
CONDS = ["NO_ERROR", "POSITIVE_ACK_LIMIT_REACHED", "FILESTORE_REJECTION", "FILE_CHECKSUM_FAILURE", "FILE_SIZE_ERROR", "NAK_LIMIT_REACHED",
         "INACTIVITY_DETECTED", "CHECK_LIMIT_REACHED", "CANCEL_REQUEST_RECEIVED"]


def gen_cases(tier, seed):
    cases = []
    for kind, ts, pmode, idw, crc in itertools.product(pdugen.KINDS, (False, True), ("ack", "unack"), (1, 2, 4, 8), (False, True)):
        cases.append({"t": "route", "kind": kind, "towards_sender": ts, "pmode": pmode, "idw": idw, "crc": crc})
        if kind in ("ACK_EOF", "ACK_FIN"):
            cases.append({"t": "route", "kind": kind, "towards_sender": ts, "pmode": pmode, "idw": idw, "crc": crc, "subtype_flip": True})
        for hmode in ("ack", "unack"):
            for step in SRC_STEPS:
                if step == "WAITING_FOR_EOF_ACK" and hmode == "unack":
                    continue
                cases.append({"t": "admit", "side": "S", "step": step, "hmode": hmode, "kind": kind, "towards_sender": ts, "pmode": pmode, "idw": idw, "crc": crc})
                if kind in ("ACK_EOF", "ACK_FIN"):
                    cases.append(dict(cases[-1], subtype_flip=True))
                if step != "IDLE_FRESH":
                    cases.append(dict(cases[-1], tx="next_seq"))
            for step in DST_STEPS:
                if hmode == "unack" and step in ("WAITING_FOR_METADATA", "WAITING_FOR_MISSING_DATA", "WAITING_FOR_FINISHED_ACK"):
                    continue
                if hmode == "ack" and step == "RECV_FILE_DATA_WITH_CHECK_LIMIT_HANDLING":
                    continue
                cases.append({"t": "admit", "side": "D", "step": step, "hmode": hmode, "kind": kind, "towards_sender": ts, "pmode": pmode, "idw": idw, "crc": crc})
                if kind in ("ACK_EOF", "ACK_FIN"):
                    cases.append(dict(cases[-1], subtype_flip=True))
                if kind == "MD":
                    # a Metadata PDU whose file names are not text (bytes which are not UTF-8 / an embedded NUL): still a Metadata PDU
                    cases.append(dict(cases[-1], binary_name="latin1"))
                    cases.append(dict(cases[-1], binary_name="nul"))
                if step not in ("IDLE_FRESH", "IDLE_AFTER_TRANSACTION"):
                    # the PDU belongs to another transaction of the same peer (its next sequence number) while the handler is busy
                    cases.append(dict(cases[-1], tx="next_seq"))
    for cond, status, idw, crc, pmode, parsed in itertools.product(CONDS, ("UNDEFINED", "ACTIVE", "TERMINATED", "UNRECOGNIZED"), (1, 2, 4, 8), (False, True), ("ack", "unack"), (False, True)):
        cases.append({"t": "inactive", "cond": cond, "status": status, "idw": idw, "crc": crc, "pmode": pmode, "parsed": parsed})
    return cases


def flip_ack_subtype(raw: bytes, idw: int, crc: bool) -> bytes:
    """ACK PDUs carry a 'directive subtype code' nibble next to the acknowledged directive code (1 for Finished, 0 for EOF in the
    dependency's constructor); the other value is just as legal on the wire.  Returns the PDU with that nibble flipped (PDU CRC redone)."""
    from .. import models

    b = bytearray(raw)
    i = 4 + 2 * idw + 2 + 1  # fixed header + directive code
    b[i] ^= 0x01
    if crc:
        b[-2:] = models.crc16_ccitt_false(bytes(b[:-2])).to_bytes(2, "big")
    return bytes(b)


def fields(kind):
    return {"NAK": {"scope": (0, 8), "reqs": [(0, 4)]}, "FD": {"offset": 0, "data": b"abcd"}, "MD": {"size": 8}, "EOF": {"size": 8}}.get(kind)


def run_case(case):
    viol = []
    obs = {"cells_" + case["t"]: 1}
    if case["t"] == "route":
        c = pdugen.conf(1, 2, 0, idw=case["idw"], mode=case["pmode"], crc=case["crc"])
        raw = pdugen.raw(case["kind"], c, fields(case["kind"]), towards_sender=case["towards_sender"])
        if case.get("subtype_flip"):
            raw = flip_ack_subtype(raw, case["idw"], case["crc"])
            obs["cells_ack_with_other_subtype_code"] = 1
        pdu = wire.parse(raw)
        try:
            dest = get_packet_destination(pdu)
            got = "DEST" if dest == PacketDestination.DEST_HANDLER else "SRC"
        except Exception as e:  # noqa: BLE001
            got = "raised " + type(e).__name__
        if got != TABLE[case["kind"]]:
            viol.append({"clause": "routing-table", "kind": case["kind"], "got": got, "want": TABLE[case["kind"]]})
        obs["routed_" + got] = 1
        return {"viol": viol, "sig": case, "obs": obs, "sample": {"pdu": wire.short(wire.describe(raw)), "routed": got}}
    if case["t"] == "admit":
        cfg = {"mode": case["hmode"], "closure": True, "size": 8, "seg": 4, "src_idw": case["idw"], "dst_idw": case["idw"],
               "crc": case["crc"], "fs": "mem", "check_limit": 3}
        with World(cfg) as w:
            ep = w.S if case["side"] == "S" else w.D
            try:
                ok = prep.src_to(w, case["step"]) if case["side"] == "S" else prep.dst_to(w, case["step"])
            except Exception as e:  # noqa: BLE001  (the scenario prefix uses only well-formed PDUs of the running transaction)
                ex = w.log.of("exc")
                return {"viol": [{"clause": "well-formed-pdu-of-the-transaction-raised-internal-error", "etype": type(e).__name__, "msg": str(e)[:120],
                                  "frames": ex[-1]["frames"] if ex else None, "case": case}], "sig": case, "obs": obs}
            if not ok:
                obs["prep_failed"] = 1
                return {"viol": [{"clause": "harness-could-not-prepare-step", "case": case, "step_now": ep.h.step.name}], "sig": None, "obs": obs}
            c = prep.tx_conf(w, mode=case["pmode"], seq=(w.cfg["seq_start"] + 1) if case.get("tx") == "next_seq" else None)
            if case.get("tx"):
                obs["cells_admit_other_transaction"] = 1
            raw = pdugen.raw(case["kind"], c, fields(case["kind"]), towards_sender=case["towards_sender"])
            if case.get("subtype_flip"):
                raw = flip_ack_subtype(raw, case["idw"], case["crc"])
                obs["cells_ack_with_other_subtype_code"] = 1
            if case.get("binary_name"):
                from .. import models

                b = bytearray(raw)
                i = b.find(b"src.bin")
                b[i : i + 2] = b"\xe9\xff" if case["binary_name"] == "latin1" else b"s\x00"
                if case["crc"]:
                    b[-2:] = models.crc16_ccitt_false(bytes(b[:-2])).to_bytes(2, "big")
                raw = bytes(b)
                obs["cells_metadata_with_binary_file_name"] = 1
            pdu = wire.parse(raw)
            before = (state_snapshot(ep.h), [bytes(x.pack()) for x in ep.h._pdus_to_be_sent])
            outcome = "accepted"
            etype = None
            try:
                ep.sm(pdu, {"kind": case["kind"]})
            except PROTO_EXC as e:
                outcome, etype = "refused", type(e).__name__
            except Exception as e:  # noqa: BLE001
                outcome, etype = "internal", type(e).__name__
            routed = TABLE[case["kind"]]
            mine = "SRC" if case["side"] == "S" else "DEST"
            other_side_exc = "InvalidPduForSourceHandler" if case["side"] == "S" else "InvalidPduForDestHandler"
            obs[f"{case['side']}_{outcome}"] = 1
            if etype:
                obs[f"{case['side']}_exc_{etype}"] = 1
            if routed == mine:
                if etype == other_side_exc:
                    viol.append({"clause": "routed-here-but-refused-as-other-side", "case": case, "etype": etype})
            else:
                if outcome == "accepted":
                    viol.append({"clause": "routed-to-other-side-but-accepted", "case": case, "step_after": ep.h.step.name})
                elif outcome == "internal":
                    viol.append({"clause": "routed-to-other-side-not-refused-properly", "case": case, "etype": etype})
                else:
                    after = (state_snapshot(ep.h), [bytes(x.pack()) for x in ep.h._pdus_to_be_sent])
                    if after != before:
                        viol.append({"clause": "refusal-changed-state", "case": case, "before": before[0], "after": after[0]})
            return {"viol": viol, "sig": case, "obs": obs,
                    "sample": {"handler": case["side"], "step": case["step"], "pdu": wire.short(wire.describe(raw)), "outcome": outcome, "exc": etype}}
    # acknowledge_inactive_eof_pdu
    c = pdugen.conf(1, 2, 5, idw=case["idw"], mode=case["pmode"], crc=case["crc"])
    raw = pdugen.raw("EOF", c, {"cond": case["cond"], "size": 3, "cksum": b"\1\2\3\4"})
    eof = wire.parse(raw) if case["parsed"] else pdugen.build("EOF", c, {"cond": case["cond"], "size": 3, "cksum": b"\1\2\3\4"})
    try:
        ack = acknowledge_inactive_eof_pdu(eof, TransactionStatus[case["status"]])
        araw = bytes(ack.pack())
        res = "ack"
    except ValueError:
        res = "ValueError"
    except Exception as e:  # noqa: BLE001
        res = "raised " + type(e).__name__
    obs["inactive_" + res] = 1
    if case["status"] == "ACTIVE":
        if res != "ValueError":
            viol.append({"clause": "active-status-not-refused", "case": case, "result": res})
    elif res != "ack":
        viol.append({"clause": "inactive-ack-not-produced", "case": case, "result": res})
    else:
        d = wire.describe(araw)
        h = d.get("h", {})
        want = {"kind": "ACK_EOF", "cond": case["cond"], "status": case["status"]}
        got = {"kind": d.get("kind"), "cond": d.get("cond"), "status": d.get("status")}
        hw = {"towards_sender": True, "src": 1, "dst": 2, "seq": 5, "idw": case["idw"], "crc": case["crc"], "unack": case["pmode"] == "unack"}
        hg = {k: h.get(k) for k in hw}
        if got != want or hg != hw or "error" in d:
            viol.append({"clause": "inactive-ack-content", "case": case, "got": got, "want": want, "hdr_got": hg, "hdr_want": hw, "err": d.get("error")})
    return {"viol": viol, "sig": case, "obs": obs, "sample": {"eof_cond": case["cond"], "status": case["status"], "result": res}}


def exhaustive(tier):
    return True


REQUIRED = {"cells_metadata_with_binary_file_name": 400, "cells_ack_with_other_subtype_code": 200, "cells_route": 288, "cells_admit_other_transaction": 1000, "cells_admit": 1000, "cells_inactive": 1152, "S_accepted": 10, "D_accepted": 10,
            "S_exc_InvalidPduForSourceHandler": 10, "D_exc_InvalidPduForDestHandler": 10}
