import sys, collections, random, traceback
from lb import *
from fx import PROTO_EXC
from spacepackets.cfdp.pdu.file_data import FileDataParams
from spacepackets.cfdp.pdu.metadata import MetadataParams
from spacepackets.cfdp.pdu.finished import FinishedParams
from spacepackets.cfdp.pdu.prompt import PromptPdu, ResponseRequired
from spacepackets.cfdp.pdu.keep_alive import KeepAlivePdu
import logging; logging.disable(logging.CRITICAL)

def rnd_pdu(rng, w, towards):
    mode = rng.choice([TransmissionMode.ACKNOWLEDGED]*3 + [TransmissionMode.UNACKNOWLEDGED])
    seq = rng.choice([0, 0, 0, 1])
    conf = PduConfig(w.src_id, w.dst_id, ByteFieldU16(seq), mode)
    if rng.random() < 0.05: conf.dest_entity_id = ByteFieldU16(9)
    if rng.random() < 0.05: conf.source_entity_id = ByteFieldU16(9)
    k = rng.randrange(9)
    off = rng.choice([0, 0, 2, 4, 6, 8, 12, 100]); ln = rng.choice([0, 1, 2, 4, 4, 8])
    if k == 0: p = MetadataPdu(conf, MetadataParams(rng.random()<0.5, rng.choice([ChecksumType.CRC_32, ChecksumType.NULL_CHECKSUM, ChecksumType.MODULAR, ChecksumType.CRC_32C, ChecksumType.CRC_32_PROXIMITY_1]), rng.choice([0,4,8,10]), w.sfile.as_posix(), w.dfile.as_posix()))
    elif k == 1: p = MetadataPdu(conf, MetadataParams(False, ChecksumType.NULL_CHECKSUM, 0, None, None))
    elif k in (2, 3): p = FileDataPdu(conf, FileDataParams(bytes(rng.randrange(256) for _ in range(ln)), off))
    elif k == 4: p = EofPdu(conf, bytes(rng.randrange(256) for _ in range(4)), rng.choice([0, 4, 8, 10]), condition_code=rng.choice([ConditionCode.NO_ERROR]*3 + [ConditionCode.CANCEL_REQUEST_RECEIVED]))
    elif k == 5: p = AckPdu(conf, rng.choice([DirectiveType.EOF_PDU, DirectiveType.FINISHED_PDU]), ConditionCode.NO_ERROR, TransactionStatus.ACTIVE)
    elif k == 6: p = NakPdu(copy.copy(conf), rng.choice([0, 4]), rng.choice([0, 8, 10]), [(rng.choice([0, 2, 4, 8, 12]), rng.choice([0, 4, 8, 10, 20])) for _ in range(rng.randrange(3))])
    elif k == 7: p = FinishedPdu(conf, FinishedParams(rng.choice([ConditionCode.NO_ERROR, ConditionCode.CANCEL_REQUEST_RECEIVED]), rng.choice(list(DeliveryCode)), rng.choice(list(FileStatus))))
    else: p = rng.choice([PromptPdu(conf, ResponseRequired.KEEP_ALIVE), KeepAlivePdu(conf, 3)])
    if rng.random() < 0.15: p.pdu_header.direction = rng.choice(list(Direction))
    elif towards is not None and rng.random() < 0.5: p.pdu_header.direction = towards
    return p

def fuzz_dest(seed, n=40):
    rng = random.Random(seed)
    w = World(mode=TransmissionMode.ACKNOWLEDGED, imm_nak=rng.random()<0.5, limit=2)
    out = []
    try:
        for i in range(n):
            r = rng.random()
            try:
                if r < 0.7:
                    p = rnd_pdu(rng, w, Direction.TOWARDS_RECEIVER)
                    w.dst.state_machine(p)
                elif r < 0.85: w.dst.state_machine()
                elif r < 0.92: CLOCK.advance(1001)
                else:
                    t = w.dst.transaction_id
                    if t is not None: w.dst.cancel_request(t)
                if rng.random() < 0.8:
                    while w.dst.get_next_packet() is not None: pass
            except PROTO_EXC: pass
            except Exception as ex:
                tb = traceback.extract_tb(ex.__traceback__)
                fr = [f for f in tb if 'cfdppy' in f.filename][-1]
                out.append((type(ex).__name__, str(ex)[:50], fr.name, fr.lineno, tb[-1].name))
                pass
    finally: w.close()
    return out
def fuzz_src(seed, n=40):
    rng = random.Random(seed)
    mode = rng.choice([TransmissionMode.ACKNOWLEDGED, TransmissionMode.UNACKNOWLEDGED])
    w = World(mode=mode, closure=rng.random()<0.5, limit=2, data=bytes(range(rng.choice([0,3,8,10]))))
    out = []
    try:
        for i in range(n):
            r = rng.random()
            try:
                if r < 0.1: w.put()
                elif r < 0.6:
                    p = rnd_pdu(rng, w, Direction.TOWARDS_SENDER)
                    w.src.state_machine(p)
                elif r < 0.85: w.src.state_machine()
                elif r < 0.92: CLOCK.advance(1001)
                else:
                    t = w.src.transaction_id
                    if t is not None: w.src.cancel_request(t)
                if rng.random() < 0.8:
                    while (h := w.src.get_next_packet()) is not None: h.pdu.pack()
            except PROTO_EXC: pass
            except Exception as ex:
                tb = traceback.extract_tb(ex.__traceback__)
                fr = [f for f in tb if 'cfdppy' in f.filename][-1]
                out.append((type(ex).__name__, str(ex)[:50], fr.name, fr.lineno, tb[-1].name))
                pass
    finally: w.close()
    return out
if __name__ == '__main__':
    N = int(sys.argv[1])
    for f in (fuzz_dest, fuzz_src):
        c = collections.Counter(); ex = {}
        for s in range(N):
            for o in f(s):
                c[o] += 1; ex.setdefault(o, s)
        print(f.__name__)
        for k, v in c.most_common(): print('  ', v, k, 'seed', ex[k])
