import random, tempfile, shutil, os, collections, sys
from pathlib import Path
from cfdppy.filestore import NativeFilestore, FilestoreResult as R
import logging; logging.disable(logging.CRITICAL)
def snap(root):
    t = {}
    for dp, dn, fn in os.walk(root):
        for d in dn: t[os.path.relpath(os.path.join(dp, d), root)] = None
        for f in fn: t[os.path.relpath(os.path.join(dp, f), root)] = open(os.path.join(dp, f), 'rb').read()
    return t
fs = NativeFilestore()
names = ['a', 'b', 'd', 'd/x', 'e/y']
c = collections.Counter()
for seed in range(int(sys.argv[1])):
    rng = random.Random(seed); root = Path(tempfile.mkdtemp(prefix='fsx'))
    try:
        for i in range(25):
            op = rng.choice(['create', 'delete', 'rename', 'replace', 'mkdir', 'rmdir', 'rmdir_r', 'trunc', 'write', 'read', 'size', 'exists', 'isdir'])
            p = root / rng.choice(names); q = root / rng.choice(names)
            before = snap(root)
            kind = lambda x: 'dir' if x.is_dir() else ('file' if x.exists() else ('noparent' if not x.parent.exists() else 'none'))
            kp, kq = kind(p), kind(q)
            try:
                if op == 'create': r = fs.create_file(p)
                elif op == 'delete': r = fs.delete_file(p)
                elif op == 'rename': r = fs.rename_file(p, q)
                elif op == 'replace': r = fs.replace_file(p, q)
                elif op == 'mkdir': r = fs.create_directory(p)
                elif op == 'rmdir': r = fs.remove_directory(p, False)
                elif op == 'rmdir_r': r = fs.remove_directory(p, True)
                elif op == 'trunc': r = fs.truncate_file(p)
                elif op == 'write': r = fs.write_data(p, b'xyz', rng.choice([None, 0, 2, 7]))
                elif op == 'read': r = fs.read_data(p, rng.choice([None, 0, 2, 50]), rng.choice([None, 2, 100]))
                elif op == 'size': r = fs.file_size(p)
                elif op == 'exists': r = fs.file_exists(p)
                elif op == 'isdir': r = fs.is_directory(p)
                res = r.name if isinstance(r, R) else type(r).__name__
            except Exception as e: res = 'EXC:' + type(e).__name__
            after = snap(root)
            two = op in ('rename', 'replace')
            nonempty = kp == 'dir' and any(k.startswith(os.path.relpath(p, root) + '/') for k in before)
            c[(op, kp + ('+ne' if nonempty and op.startswith('rmdir') else ''), kq if two else '', 'same' if (two and p == q) else '', res, 'changed' if before != after else 'unchanged')] += 1
    finally: shutil.rmtree(root, ignore_errors=True)
for k, v in sorted(c.items()): print(v, k)
