import sys, collections, random
from lb import *
from tr import show
from fx import PROTO_EXC
from spacepackets.cfdp.pdu.file_data import FileDataParams
from spacepackets.cfdp.pdu.metadata import MetadataParams
import logging; logging.disable(logging.CRITICAL)
from crcmod.predefined import mkPredefinedCrcFun
import struct
crc = mkPredefinedCrcFun('crc32')
def iv_sub(ivs, a, b):
    out = []
    for s, e in ivs:
        if e <= a or s >= b: out.append((s, e))
        else:
            if s < a: out.append((s, a))
            if e > b: out.append((b, e))
    return out
def iv_norm(ivs):
    ivs = sorted(i for i in ivs if i[0] < i[1]); out = []
    for s, e in ivs:
        if out and s <= out[-1][1]: out[-1] = (out[-1][0], max(out[-1][1], e))
        else: out.append((s, e))
    return out
def run(seed, verbose=False):
    rng = random.Random(seed)
    size = rng.choice([0, 1, 4, 7, 8, 12, 13, 20, 33]); seg = rng.choice([1, 3, 4, 8]); imm = rng.random() < 0.5
    maxpkt = rng.choice([64, 64, 30, 38])
    data = bytes(rng.randrange(256) for _ in range(size))
    w = World(mode=TransmissionMode.ACKNOWLEDGED, data=data, seg=seg, imm_nak=imm, limit=3, maxpkt=maxpkt)
    conf = PduConfig(w.src_id, w.dst_id, ByteFieldU16(0), TransmissionMode.ACKNOWLEDGED)
    md = MetadataPdu(conf, MetadataParams(False, ChecksumType.CRC_32, size, w.sfile.as_posix(), w.dfile.as_posix()))
    fds = [FileDataPdu(conf, FileDataParams(data[o:o+seg], o)) for o in range(0, size, seg)]
    eof = EofPdu(conf, struct.pack('!I', crc(data)), size)
    seq = [md] + fds + [eof]
    # perturb: drop some, dup some, shuffle locally
    out = []
    for p in seq:
        r = rng.random()
        if r < 0.2: continue
        out.append(p)
        if r > 0.9: out.append(p)
    for _ in range(rng.randrange(4)):
        if len(out) >= 2:
            i = rng.randrange(len(out)); j = min(len(out)-1, i + rng.randrange(1, 4)); out[i], out[j] = out[j], out[i]
    stored = []   # intervals stored
    have_md = False; eof_seen = False
    problems = []
    def check_naks(naks, after_eof_deferred):
        for n in naks:
            raw = n.pack()
            if len(raw) > maxpkt: problems.append(('nak_too_long', len(raw), maxpkt))
            for (s, e) in n.segment_requests:
                if (s, e) == (0, 0):
                    if have_md: problems.append(('md_req_but_have_md',))
                    continue
                if not (n.start_of_scope <= s and e <= n.end_of_scope): problems.append(('outside_scope', (s, e), (n.start_of_scope, n.end_of_scope)))
                # must not cover stored bytes
                for (a, b) in iv_norm(stored):
                    if max(a, s) < min(b, e): problems.append(('requests_stored', (s, e), (a, b), show(n)))
    pending = list(out); steps = 0; retx_done = False
    while steps < 200:
        steps += 1
        if pending:
            p = wire(pending.pop(0)) if not (isinstance(pending[0], FileDataPdu) and len(pending[0].file_data) == 0) else pending.pop(0)
        else: p = None
        pre_md = have_md
        try:
            w.dst.state_machine(p)
        except PROTO_EXC as e:
            if verbose: print('exc', type(e).__name__)
        except Exception as e:
            problems.append(('CRASH', type(e).__name__, str(e)[:40])); break
        step = w.dst.step.name
        if isinstance(p, MetadataPdu) and not have_md and any(e[1] == 'metadata_recv' for e in w.log): have_md = True
        if isinstance(p, FileDataPdu) and have_md and pre_md: stored.append((p.offset, p.offset + len(p.file_data)))
        if isinstance(p, EofPdu): eof_seen = True
        naks = []
        while (h := w.dst.get_next_packet()) is not None:
            if isinstance(h.pdu, NakPdu): naks.append(h.pdu)
            if isinstance(h.pdu, FinishedPdu): 
                ack = AckPdu(conf, DirectiveType.FINISHED_PDU, h.pdu.condition_code, TransactionStatus.ACTIVE); pending.append(ack)
        if verbose: print(show(p) if p else None, '->', step, [show(n) for n in naks], w.dst._params.acked_params.lost_seg_tracker.lost_segments)
        check_naks(naks, eof_seen)
        if naks and eof_seen and w.dst.deferred_lost_segment_procedure_active:
            req = iv_norm([r for n in naks for r in n.segment_requests if r != (0, 0)])
            missing = [(0, size)]
            for a, b in stored: missing = iv_sub(missing, a, b)
            missing = iv_norm(missing)
            if req != missing: problems.append(('deferred_set_mismatch', req, missing))
            mdreq = any((0, 0) in n.segment_requests for n in naks)
            if mdreq == have_md: problems.append(('mdreq_mismatch', mdreq, have_md))
            # service the NAKs like a source
            for n in naks:
                for (s, e) in n.segment_requests:
                    if (s, e) == (0, 0): pending.append(md)
                    else:
                        o = s
                        while o < e:
                            c = min(seg, e - o); pending.append(FileDataPdu(conf, FileDataParams(data[o:o+c], o))); o += c
        if w.dst.state == CfdpState.IDLE and not pending: break
        if p is None and not naks: CLOCK.advance(1001)
    fins = [(e[2].finished_params.condition_code.name, e[2].finished_params.delivery_code.name) for e in w.log if e[1] == 'finished']
    ok = w.dfile.exists() and w.dfile.read_bytes() == data
    res = (w.dst.state.name, w.dst.step.name, tuple(fins), ok)
    w.close()
    return problems, res, (size, seg, imm, maxpkt, [show(p) for p in out])
if __name__ == '__main__':
    if len(sys.argv) > 2:
        print(run(int(sys.argv[2]), True)); sys.exit()
    c = collections.Counter(); ex = {}; rc = collections.Counter()
    for s in range(int(sys.argv[1])):
        problems, res, info = run(s)
        rc[res[:3] + (res[3],)] += 1
        for p in set(pp[0] for pp in problems):
            c[p] += 1; ex.setdefault(p, (s, [pp for pp in problems if pp[0] == p][0], info))
    for k, v in c.most_common(): print(v, k, ex[k])
    for k, v in rc.most_common(): print(v, k)
