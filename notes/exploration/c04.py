import sys, collections
from lb import *
from tr import show
from fx import PROTO_EXC
import struct, zlib, logging; logging.disable(logging.CRITICAL)
from spacepackets.cfdp.pdu.file_data import FileDataParams
from spacepackets.cfdp.pdu.metadata import MetadataParams
def expiries(w, h, q, tag, n):
    """advance exactly one interval n times, idle-calling h, return per-expiry (emitted, fh events)."""
    out = []
    for i in range(n):
        CLOCK.advance(1000)
        mark = len(w.log)
        try: h.state_machine()
        except PROTO_EXC as e: out.append(('EXC', type(e).__name__)); 
        w.drain(h, q, tag)
        em = [show(p) for p in q]; q.clear()
        fh = [(e[1], e[2].name) for e in w.log[mark:] if e[1].startswith('fh_')]
        fin = [e[2].finished_params.condition_code.name for e in w.log[mark:] if e[1] == 'finished']
        out.append((i + 1, em, fh, fin, h.state.name))
        if h.state == CfdpState.IDLE: break
    return out
for N in (1, 2, 3):
    print('=== N', N)
    # source: EOF awaiting ACK, silence
    w = World(mode=TransmissionMode.ACKNOWLEDGED, data=bytes(range(6)), seg=4, limit=N); w.put()
    for _ in range(6): w.step_src()
    w.s2d.clear()
    print(' SRC eof-ack silent:', expiries(w, w.src, w.s2d, 'S', 2 * N + 3)); w.close()
    # source: j<N expiries then ACK arrives -> then silence on Finished wait is excluded. Instead: check counter reset via positive_ack_counter
    # dest: Finished awaiting ACK
    w = World(mode=TransmissionMode.ACKNOWLEDGED, data=bytes(range(6)), seg=4, limit=N); w.put()
    for _ in range(12):
        w.step_src()
        while w.s2d: w.step_dst(wire(w.s2d.pop(0)))
        w.step_dst()
        w.d2s_keep = list(w.d2s)
        # only deliver ACK(EOF) to source, not Finished
        for p in list(w.d2s):
            w.d2s.remove(p)
            if isinstance(p, AckPdu): w.step_src(wire(p))
    w.d2s.clear()
    print(' DST fin-ack silent:', w.dst.step.name, expiries(w, w.dst, w.d2s, 'D', 2 * N + 3)); w.close()
    # dest: NAK awaiting data
    w = World(mode=TransmissionMode.ACKNOWLEDGED, data=bytes(range(10)), seg=4, limit=N, imm_nak=False)
    conf = PduConfig(w.src_id, w.dst_id, ByteFieldU16(0), TransmissionMode.ACKNOWLEDGED)
    w.step_dst(wire(MetadataPdu(conf, MetadataParams(False, ChecksumType.CRC_32, 10, w.sfile.as_posix(), w.dfile.as_posix()))))
    w.step_dst(wire(FileDataPdu(conf, FileDataParams(w.data[0:4], 0))))
    w.step_dst(wire(EofPdu(conf, struct.pack('!I', zlib.crc32(w.data)), 10)))
    w.step_dst(); first = [show(p) for p in w.d2s]; w.d2s.clear()
    print(' DST nak silent: first', first, expiries(w, w.dst, w.d2s, 'D', 3 * N + 4)); w.close()
    # dest NAK with progress after j expiries
    if N >= 2:
        w = World(mode=TransmissionMode.ACKNOWLEDGED, data=bytes(range(12)), seg=4, limit=N, imm_nak=False)
        conf = PduConfig(w.src_id, w.dst_id, ByteFieldU16(0), TransmissionMode.ACKNOWLEDGED)
        w.step_dst(wire(MetadataPdu(conf, MetadataParams(False, ChecksumType.CRC_32, 12, w.sfile.as_posix(), w.dfile.as_posix()))))
        w.step_dst(wire(EofPdu(conf, struct.pack('!I', zlib.crc32(w.data)), 12)))
        w.step_dst(); w.d2s.clear()
        a = expiries(w, w.dst, w.d2s, 'D', N - 1)
        w.step_dst(wire(FileDataPdu(conf, FileDataParams(w.data[0:4], 0)))); w.d2s.clear()
        print(' DST nak progress after', N - 1, ':', a, 'counter', w.dst.nak_activity_counter, expiries(w, w.dst, w.d2s, 'D', N + 1)); w.close()
