import sys, collections, zlib, struct
from lb import *
from tr import show
from fx import PROTO_EXC, Entity
import logging; logging.disable(logging.CRITICAL)
def model_ck(cks, d):
    if cks == ChecksumType.CRC_32: return struct.pack('!I', zlib.crc32(d))
    if cks == ChecksumType.MODULAR:
        s = 0
        for i in range(0, len(d), 4): s += int.from_bytes(d[i:i+4].ljust(4, b'\0'), 'big')
        return struct.pack('!I', s % 2**32)
def run(mode, closure, size, at, wrong, disp, cks, drop_idx=None):
    w = World(mode=mode, closure=closure, data=bytes((i * 37 + 11) % 256 for i in range(size)), seg=4, limit=2, disp=disp, cks=cks)
    w.put(); ent = Entity(w)
    problems = []; sent_new = 0; cancelled_at = None; post = []; nsent = 0
    calls = 0
    for i in range(300):
        # source call
        if calls == at and cancelled_at is None:
            tid = w.src.transaction_id; active = w.src.state == CfdpState.BUSY and tid is not None
            use = TransactionId(ByteFieldU16(1), ByteFieldU16(999)) if wrong else tid
            if use is None: use = TransactionId(ByteFieldU16(1), ByteFieldU16(0))
            try:
                r = w.src.cancel_request(use)
                exp = active and not wrong and tid == use
                if r != exp: problems.append(('retval', r, exp, w.src.step.name))
                if r: cancelled_at = sent_new
            except PROTO_EXC as e: problems.append(('cancel_exc', type(e).__name__))
            mark = len(w.log)
        calls += 1
        try:
            if w.d2s: w.src.state_machine(wire(w.d2s.pop(0)))
            else: w.src.state_machine()
        except PROTO_EXC as e: pass
        while (h := w.src.get_next_packet()) is not None:
            p = h.pdu; nsent += 1
            if cancelled_at is not None: post.append(p)
            if isinstance(p, FileDataPdu):
                if p.offset + len(p.file_data) > sent_new and cancelled_at is None: sent_new = max(sent_new, p.offset + len(p.file_data))
                if cancelled_at is not None and p.offset >= cancelled_at and len(p.file_data) > 0: problems.append(('new_fd_after_cancel', p.offset, cancelled_at))
            if drop_idx is not None and nsent == drop_idx: continue
            w.s2d.append(p)
        # dest
        for _ in range(2):
            try:
                if w.s2d: ent.deliver_to_dst(wire(w.s2d.pop(0)))
                else: w.step_dst()
            except PROTO_EXC: pass
        if w.src.state == CfdpState.IDLE and w.dst.state == CfdpState.IDLE and not w.s2d and not w.d2s and calls > at: break
        if i > 40: CLOCK.advance(1001)
    if cancelled_at is not None:
        if not post or not isinstance(post[0], EofPdu): problems.append(('first_post_not_eof', [show(p) for p in post[:2]]))
        else:
            e = post[0]
            if e.condition_code != ConditionCode.CANCEL_REQUEST_RECEIVED: problems.append(('eof_cc', int(e.condition_code)))
            if e.file_size != cancelled_at: problems.append(('eof_size', e.file_size, cancelled_at))
            if bytes(e.file_checksum) != model_ck(cks, w.data[:cancelled_at]): problems.append(('eof_ck', bytes(e.file_checksum).hex(), model_ck(cks, w.data[:cancelled_at]).hex(), cancelled_at, size))
        # receiver side: finished with EOF's condition and fault location sender (if EOF(cancel) delivered)
        dfin = [e[2].finished_params for e in w.log if e[0] == 'D' and e[1] == 'finished']
        if dfin:
            f = dfin[-1]
            if f.condition_code == ConditionCode.CANCEL_REQUEST_RECEIVED:
                if f.fault_location is None or f.fault_location.value != w.src_id.as_bytes: problems.append(('fault_loc', f.fault_location))
                exists = w.dfile.exists()
                if f.delivery_code == DeliveryCode.DATA_INCOMPLETE and exists == disp: problems.append(('disposition', exists, disp))
    st = (w.src.state.name, w.dst.state.name)
    w.close()
    return problems, cancelled_at, st
c = collections.Counter(); ex = {}; n = 0; ncanc = 0
for mode in TransmissionMode:
    for closure in (False, True):
        for size in (0, 4, 10):
            for cks in (ChecksumType.CRC_32, ChecksumType.MODULAR):
                for wrong in (False, True):
                    for at in range(0, 9):
                        for drop in (None, 2, 3):
                            disp = (at + size) % 2 == 0
                            n += 1
                            try: pr, ca, st = run(mode, closure, size, at, wrong, disp, cks, drop)
                            except Exception as e:
                                import traceback; tb = traceback.extract_tb(e.__traceback__); fr = ([f for f in tb if 'cfdppy' in f.filename] or [tb[-1]])[-1]
                                pr, ca, st = [('EXC', type(e).__name__, str(e)[:50], fr.name, fr.lineno)], None, None
                            if ca is not None: ncanc += 1
                            for p in pr:
                                k = p[:2] if p[0] in ('EXC', 'retval', 'cancel_exc') else p[:1]
                                c[k] += 1; ex.setdefault(k, (mode.name, closure, size, cks.name, wrong, at, drop, p))
print('cases', n, 'cancelled', ncanc)
for k, v in c.most_common(): print(v, k, ex[k])
