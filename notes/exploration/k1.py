import fixes
import sys, collections, itertools
from fx import *
from tr import show, dump

def run_sched(w, faults, maxsteps=4000, maxidle=80):
    """faults: dict index-> ('drop',)|('dup',)|('delay',n). index = global sequence number of PDU put on a link (both directions)."""
    ent = Entity(w)
    counter = [0]
    held = []  # (release_at_count, dirq, pdu)
    def on_send(q, pdus):
        out = []
        for p in pdus:
            i = counter[0]; counter[0] += 1
            f = faults.get(i)
            p.__dict__['_kind'] = show(p)
            if f is None: out.append(p)
            elif f[0] == 'drop': ent.exc.append(('FAULT', i, 'drop', show(p)))
            elif f[0] == 'dup': out.extend([p, p]); ent.exc.append(('FAULT', i, 'dup', show(p)))
            elif f[0] == 'delay': held.append([f[1], q, p]); ent.exc.append(('FAULT', i, 'delay', show(p)))
        return out
    cur = {'s': None, 'd': None}
    def track():
        if w.src.transaction_id is not None: cur['s'] = tid_of_t(w.src.transaction_id)
        if w.dst.transaction_id is not None: cur['d'] = tid_of_t(w.dst.transaction_id)
        if w.src.state == CfdpState.IDLE and cur['s'] is not None: ent.closed_src.add(cur['s'])
        if w.dst.state == CfdpState.IDLE and cur['d'] is not None: ent.closed_dst.add(cur['d'])
    def tid_of_t(t): return (t.source_id.value, t.seq_num.value)
    # link buffers: raw staging lists that World.drain appends to
    idle = 0
    s2d_wire = []; d2s_wire = []
    def flush():
        if w.s2d:
            s2d_wire.extend(on_send('s2d', w.s2d)); w.s2d.clear()
        if w.d2s:
            d2s_wire.extend(on_send('d2s', w.d2s)); w.d2s.clear()
    def tick_held():
        for h in list(held):
            h[0] -= 1
            if h[0] <= 0:
                (s2d_wire if h[1] == 's2d' else d2s_wire).append(h[2]); held.remove(h)
    for i in range(maxsteps):
        progressed = False
        flush()
        if s2d_wire:
            ent.deliver_to_dst(wire(s2d_wire.pop(0))); progressed = True; tick_held()
        else:
            try:
                if w.step_dst(): progressed = True
            except PROTO_EXC as e: ent.exc.append(('D', type(e).__name__, str(e)))
        track(); flush()
        if d2s_wire:
            ent.deliver_to_src(wire(d2s_wire.pop(0))); progressed = True; tick_held()
        else:
            try:
                if w.step_src(): progressed = True
            except PROTO_EXC as e: ent.exc.append(('S', type(e).__name__, str(e)))
        track(); flush()
        if w.src.state == CfdpState.IDLE and w.dst.state == CfdpState.IDLE and not s2d_wire and not d2s_wire and not held:
            return ('done', i, ent)
        if not progressed:
            if held:
                for h in held: h[0] = 0
                tick_held(); continue
            idle += 1; CLOCK.advance(1001)
            if idle > maxidle: return ('stuck', i, ent)
    return ('maxsteps', i, ent)

def classify(w, res, ent):
    ok = w.dfile.exists() and w.dfile.read_bytes() == w.data
    fins = tuple((e[0], e[2].finished_params.condition_code.name, e[2].finished_params.delivery_code.name) for e in w.log if e[1]=='finished')
    good = res == 'done' and ok and fins and sorted(fins) == [('D','NO_ERROR','DATA_COMPLETE'),('S','NO_ERROR','DATA_COMPLETE')]
    return good, (res, ok, fins, tuple(sorted(set((x[0], x[1]) for x in ent.exc if x[0] != 'FAULT'))))

if __name__ == '__main__':
    size = int(sys.argv[1]); K = int(sys.argv[2])
    tot = collections.Counter(); bad = collections.defaultdict(list)
    for imm in (True, False):
        for closure in (False,):
            # count PDUs in clean run
            w = World(closure=closure, seg=4, data=bytes(range(size)), imm_nak=imm, limit=K+3); w.put()
            r = run_sched(w, {}); n = sum(1 for e in w.log if e[1] == 'tx'); w.close()
            kinds = [('drop',), ('dup',), ('delay', 1), ('delay', 2), ('delay', 4)]
            for idxs in itertools.combinations(range(n + 4), K):
                for fk in itertools.product(kinds, repeat=K):
                    faults = dict(zip(idxs, fk))
                    w = World(closure=closure, seg=4, data=bytes(range(size)), imm_nak=imm, limit=K+3); w.put()
                    try:
                        res, steps, ent = run_sched(w, faults)
                        good, key = classify(w, res, ent)
                        fl = tuple((x[2], x[3]) for x in ent.exc if x[0] == 'FAULT')
                    except Exception as ex:
                        tb = traceback.extract_tb(ex.__traceback__)[-1]
                        good, key, fl = False, ('EXC', type(ex).__name__, str(ex)[:60], tb.name, tb.lineno), tuple(faults.items())
                    tot[good] += 1
                    if not good: bad[key].append((imm, fl))
                    w.close()
    print(tot)
    for k, v in bad.items():
        print(len(v), k)
        for x in v[:6]: print('     ', x)
