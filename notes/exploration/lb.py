"""Exploratory loopback (scratch)."""
import sys, os, random, tempfile, shutil, copy, traceback
from pathlib import Path
from datetime import timedelta
import spacepackets.countdown as cd
from spacepackets.countdown import Countdown
from spacepackets.cfdp import *
from spacepackets.cfdp.pdu import *
from spacepackets.cfdp.pdu.helper import PduFactory
from spacepackets.seqcount import SeqCountProvider
from spacepackets.util import ByteFieldU8, ByteFieldU16, ByteFieldU32
from cfdppy import *
from cfdppy.mib import *
from cfdppy.handler.source import SourceHandler
from cfdppy.handler.dest import DestHandler
from cfdppy.user import CfdpUserBase
from cfdppy.request import PutRequest
from cfdppy.defs import CfdpState

class VClock:
    def __init__(self): self.now = 1_000_000
    def __call__(self): return self.now
    def advance(self, ms): self.now += ms
CLOCK = VClock()
cd.time_ms = CLOCK

class FH(DefaultFaultHandlerBase):
    def __init__(self, log, name):
        super().__init__(); self.log = log; self.name = name
    def notice_of_suspension_cb(self, t, c, p): self.log.append((self.name, 'fh_suspend', c, p))
    def notice_of_cancellation_cb(self, t, c, p): self.log.append((self.name, 'fh_cancel', c, p))
    def abandoned_cb(self, t, c, p): self.log.append((self.name, 'fh_abandon', c, p))
    def ignore_cb(self, t, c, p): self.log.append((self.name, 'fh_ignore', c, p))

class User(CfdpUserBase):
    def __init__(self, log, name, vfs=None):
        super().__init__(vfs); self.log = log; self.name = name
    def transaction_indication(self, p): self.log.append((self.name, 'transaction', p))
    def eof_sent_indication(self, t): self.log.append((self.name, 'eof_sent', t))
    def transaction_finished_indication(self, p): self.log.append((self.name, 'finished', copy.deepcopy(p)))
    def metadata_recv_indication(self, p): self.log.append((self.name, 'metadata_recv', p))
    def file_segment_recv_indication(self, p): self.log.append((self.name, 'seg_recv', p.offset, p.length))
    def report_indication(self, t, s): self.log.append((self.name, 'report'))
    def suspended_indication(self, t, c): self.log.append((self.name, 'suspended'))
    def resumed_indication(self, t, p): self.log.append((self.name, 'resumed'))
    def fault_indication(self, t, c, p): self.log.append((self.name, 'fault', c))
    def abandoned_indication(self, t, c, p): self.log.append((self.name, 'abandoned', c))
    def eof_recv_indication(self, t): self.log.append((self.name, 'eof_recv', t))

class CTP(CheckTimerProvider):
    def __init__(self, ms=1000): self.ms = ms
    def provide_check_timer(self, local_entity_id, remote_entity_id, entity_type): return Countdown(timedelta(milliseconds=self.ms))

def wire(pdu):
    raw = bytes(pdu.pack())
    p = PduFactory.from_raw(raw)
    if isinstance(p, EofPdu):
        p.condition_code = ConditionCode(p.condition_code >> 4) if p.condition_code > 15 else ConditionCode(p.condition_code)
        p.file_checksum = bytes(p.file_checksum)
    return p

class World:
    def __init__(self, mode=TransmissionMode.ACKNOWLEDGED, closure=False, seg=4, maxpkt=64,
                 crc=False, cks=ChecksumType.CRC_32, imm_nak=True, limit=3, idcls=ByteFieldU16,
                 seqw=16, disp=False, data=b'0123456789', check_limit=2):
        self.log = []
        self.dir = Path(tempfile.mkdtemp(prefix='cfdpx'))
        self.src_id, self.dst_id = idcls(1), idcls(2)
        common = dict(max_file_segment_len=seg, max_packet_len=maxpkt, closure_requested=closure,
                      crc_on_transmission=crc, default_transmission_mode=mode, crc_type=cks,
                      positive_ack_timer_interval_seconds=1.0, positive_ack_timer_expiration_limit=limit,
                      check_limit=check_limit, disposition_on_cancellation=disp, immediate_nak_mode=imm_nak,
                      nak_timer_interval_seconds=1.0, nak_timer_expiration_limit=limit)
        self.rc_dst = RemoteEntityCfg(entity_id=self.dst_id, **common)
        self.rc_src = RemoteEntityCfg(entity_id=self.src_id, **common)
        self.tbl = RemoteEntityCfgTable([self.rc_dst, self.rc_src])
        self.sfh, self.dfh = FH(self.log, 'S'), FH(self.log, 'D')
        self.suser, self.duser = User(self.log, 'S'), User(self.log, 'D')
        self.src = SourceHandler(LocalEntityCfg(self.src_id, IndicationCfg(), self.sfh), self.suser, self.tbl, CTP(), SeqCountProvider(seqw))
        self.dst = DestHandler(LocalEntityCfg(self.dst_id, IndicationCfg(), self.dfh), self.duser, self.tbl, CTP())
        self.sfile = self.dir / 'src.bin'; self.dfile = self.dir / 'dst.bin'
        self.sfile.write_bytes(data); self.data = data
        self.s2d = []; self.d2s = []
    def put(self, mode=None, closure=None):
        return self.src.put_request(PutRequest(self.dst_id, self.sfile, self.dfile, mode, closure))
    def drain(self, h, q, tag):
        n = 0
        while True:
            p = h.get_next_packet()
            if p is None: break
            self.log.append((tag, 'tx', p.pdu))
            q.append(p.pdu); n += 1
        return n
    def step_src(self, pkt=None):
        self.src.state_machine(pkt); return self.drain(self.src, self.s2d, 'S')
    def step_dst(self, pkt=None):
        self.dst.state_machine(pkt); return self.drain(self.dst, self.d2s, 'D')
    def close(self): shutil.rmtree(self.dir, ignore_errors=True)

def run_clean(w, maxsteps=2000, verbose=False):
    for i in range(maxsteps):
        act = False
        if w.s2d:
            p = wire(w.s2d.pop(0)); w.step_dst(p); act = True
        else:
            if w.step_dst(): act = True
        if w.d2s:
            p = wire(w.d2s.pop(0)); w.step_src(p); act = True
        else:
            if w.step_src(): act = True
        if w.src.state == CfdpState.IDLE and w.dst.state == CfdpState.IDLE and not w.s2d and not w.d2s:
            return i
    return None
if __name__ == '__main__':
    for mode in (TransmissionMode.ACKNOWLEDGED, TransmissionMode.UNACKNOWLEDGED):
        for closure in (False, True):
            for size in (0, 3, 4, 10, 12):
                w = World(mode=mode, closure=closure, data=bytes(range(size)))
                w.put()
                try:
                    n = run_clean(w)
                    ok = w.dfile.exists() and w.dfile.read_bytes() == w.data
                    fins = [(e[0], e[2].finished_params.condition_code.name, e[2].finished_params.delivery_code.name, e[2].finished_params.file_status.name) for e in w.log if e[1]=='finished']
                    print(mode.name, closure, size, 'steps', n, 'fileok', ok, fins, [e for e in w.log if e[1].startswith('fh_')])
                except Exception as ex:
                    traceback.print_exc()
                w.close()
