import fixes
import sys, collections
from k1 import *
import logging; logging.disable(logging.CRITICAL)
from spacepackets.cfdp import FaultHandlerCode as F
# scenarios: (name, mode, faults, conditions)
def scen(name, code, cond, side):
    kw = dict(seg=4, data=bytes(range(10)), limit=2, check_limit=2)
    if name == 'src_ack_limit':   # drop all ACK(EOF): silence D->S
        w = World(mode=TransmissionMode.ACKNOWLEDGED, **kw); silent = 'd2s'
    elif name == 'dst_ack_limit':  # drop ACK(FIN)
        w = World(mode=TransmissionMode.ACKNOWLEDGED, **kw); silent = 'ackfin'
    elif name == 'dst_nak_limit':
        w = World(mode=TransmissionMode.ACKNOWLEDGED, **kw); silent = 'fd1+retx'
    elif name == 'dst_check_limit':
        w = World(mode=TransmissionMode.UNACKNOWLEDGED, closure=True, **kw); silent = 'fd1'
    elif name == 'src_check_limit':
        w = World(mode=TransmissionMode.UNACKNOWLEDGED, closure=True, **kw); silent = 'd2s'
    elif name == 'dst_checksum':
        w = World(mode=TransmissionMode.ACKNOWLEDGED, **kw); silent = 'flip'
    elif name == 'dst_size_error':
        w = World(mode=TransmissionMode.UNACKNOWLEDGED, closure=True, **kw); silent = 'eofsmall'
    (w.sfh if side == 'S' else w.dfh).set_handler(cond, code)
    return w, silent

def run2(w, silent, maxsteps=400):
    exc = []
    idle = 0
    for i in range(maxsteps):
        prog = False
        if w.s2d:
            p = w.s2d.pop(0)
            drop = False
            if silent in ('fd1', 'fd1+retx') and isinstance(p, FileDataPdu) and p.offset == 4: drop = True
            if silent == 'ackfin' and isinstance(p, AckPdu): drop = True
            p = wire(p)
            if silent == 'flip' and isinstance(p, FileDataPdu) and p.offset == 4: p.file_data = b'XXXX'
            if silent == 'eofsmall' and isinstance(p, EofPdu): p.file_size = 6
            if not drop:
                try: w.step_dst(p)
                except PROTO_EXC as e: exc.append(('D', type(e).__name__)); w.drain(w.dst, w.d2s, 'D')
            prog = True
        else:
            try:
                if w.step_dst(): prog = True
            except PROTO_EXC as e: exc.append(('D', type(e).__name__)); w.drain(w.dst, w.d2s, 'D')
        if w.d2s:
            p = wire(w.d2s.pop(0))
            if silent != 'd2s':
                try: w.step_src(p)
                except PROTO_EXC as e: exc.append(('S', type(e).__name__)); w.drain(w.src, w.s2d, 'S')
            prog = True
        else:
            try:
                if w.step_src(): prog = True
            except PROTO_EXC as e: exc.append(('S', type(e).__name__)); w.drain(w.src, w.s2d, 'S')
        if w.src.state == CfdpState.IDLE and w.dst.state == CfdpState.IDLE and not w.s2d and not w.d2s: return 'done', exc
        if not prog:
            idle += 1; CLOCK.advance(1001)
            if idle > 30: return 'stuck', exc
    return 'maxsteps', exc

S = [('src_ack_limit', ConditionCode.POSITIVE_ACK_LIMIT_REACHED, 'S'), ('dst_ack_limit', ConditionCode.POSITIVE_ACK_LIMIT_REACHED, 'D'),
     ('dst_nak_limit', ConditionCode.NAK_LIMIT_REACHED, 'D'), ('dst_check_limit', ConditionCode.CHECK_LIMIT_REACHED, 'D'),
     ('src_check_limit', ConditionCode.CHECK_LIMIT_REACHED, 'S'), ('dst_checksum', ConditionCode.FILE_CHECKSUM_FAILURE, 'D'), ('dst_size_error', ConditionCode.FILE_SIZE_ERROR, 'D')]
for name, cond, side in S:
    for code in (F.IGNORE_ERROR, F.NOTICE_OF_CANCELLATION, F.ABANDON_TRANSACTION):
        w, silent = scen(name, code, cond, side); w.put()
        try:
            res, exc = run2(w, silent)
        except Exception as ex:
            tb = traceback.extract_tb(ex.__traceback__); fr = [f for f in tb if 'cfdppy' in f.filename][-1]
            res, exc = 'EXC %s %s @%s:%d' % (type(ex).__name__, str(ex)[:60], fr.name, fr.lineno), []
        fh = collections.Counter((e[0], e[1], e[2].name) for e in w.log if e[1].startswith('fh_'))
        fins = [(e[0], e[2].finished_params.condition_code.name, e[2].finished_params.delivery_code.name) for e in w.log if e[1]=='finished']
        ntx = collections.Counter((e[0], type(e[2]).__name__) for e in w.log if e[1]=='tx')
        print(name, code.name, '->', res, '| S', w.src.state.name, w.src.step.name, '| D', w.dst.state.name, w.dst.step.name)
        print('     fh', dict(fh)); print('     fins', fins, 'exc', collections.Counter(exc)); print('     tx', dict(ntx))
        w.close()
