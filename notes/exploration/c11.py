import sys, collections, random, traceback
from fx import *
from k1 import run_sched
import logging; logging.disable(logging.CRITICAL)
from spacepackets.seqcount import SeqCountProvider
def trace_of(w, start):
    out = []
    for e in w.log[start:]:
        if e[1] == 'tx': out.append((e[0], 'tx', bytes(e[2].pack()).hex()))
        elif e[1] == 'finished': out.append((e[0], 'finished', str(e[2].finished_params), str(e[2].transaction_id)))
        elif e[1] in ('seg_recv',): out.append(e)
        elif e[1].startswith('fh_'): out.append((e[0], e[1], e[2].name, e[3]))
        else: out.append((e[0], e[1], str(e[2]) if len(e) > 2 else None))
    return out
def do_T(w, kind, rng_seed):
    w.sfile.write_bytes(kind['data']); w.data = kind['data']
    if w.dfile.exists(): w.dfile.unlink()
    start = len(w.log)
    assert w.src.put_request(PutRequest(w.dst_id, w.sfile, w.dfile, kind['mode'], kind['closure']))
    res = run_sched(w, dict(kind['faults']))
    return res[0], trace_of(w, start), (w.dfile.read_bytes() if w.dfile.exists() else None)
def do_H(w, h, rng):
    data = bytes(rng.randrange(256) for _ in range(rng.choice([0, 5, 12])))
    w.sfile.write_bytes(data); w.data = data
    if w.dfile.exists(): w.dfile.unlink()
    mode = rng.choice(list(TransmissionMode))
    assert w.src.put_request(PutRequest(w.dst_id, w.sfile, w.dfile, mode, rng.random() < 0.5))
    if h == 'complete': run_sched(w, {})
    elif h == 'lossy': run_sched(w, {rng.randrange(1, 4): ('drop',)})
    elif h == 'cancel_src':
        w.step_src(); 
        if w.s2d: w.step_dst(wire(w.s2d.pop(0)))
        w.step_src()
        try: w.src.cancel_request(w.src.transaction_id); w.drain(w.src, w.s2d, 'S')
        except Exception as e: print('cancel exc', e)
        run_sched(w, {})
    elif h == 'silent':   # dest never answers -> src faults & abandons; then dest fed nothing
        for i in range(60):
            try: w.step_src()
            except PROTO_EXC: pass
            w.s2d.clear(); CLOCK.advance(1001)
            if w.src.state == CfdpState.IDLE: break
    # make sure both idle
    for i in range(100):
        if w.src.state == CfdpState.IDLE and w.dst.state == CfdpState.IDLE: break
        try: w.step_src(); w.step_dst()
        except PROTO_EXC: pass
        w.s2d.clear(); w.d2s.clear(); CLOCK.advance(1001)
    return w.src.state == CfdpState.IDLE and w.dst.state == CfdpState.IDLE
bad = collections.Counter(); ex = {}
for seed in range(int(sys.argv[1])):
    rng = random.Random(seed)
    nh = rng.randrange(1, 4); hs = [rng.choice(['complete', 'lossy', 'cancel_src', 'silent']) for _ in range(nh)]
    kind = dict(data=bytes(rng.randrange(256) for _ in range(rng.choice([0, 3, 9, 12]))), mode=rng.choice(list(TransmissionMode)), closure=rng.random() < 0.5,
                faults=[(rng.randrange(1, 5), ('drop',))] if rng.random() < 0.5 else [])
    imm = rng.random() < 0.5
    try:
        w1 = World(imm_nak=imm, limit=2, seg=4); idle = all(do_H(w1, h, rng) for h in hs)
        if not idle: bad[('H not idle', tuple(hs))] += 1; w1.close(); continue
        nseq = w1.src.seq_num_provider._seq_count if hasattr(w1.src.seq_num_provider, '_seq_count') else None
        r1 = do_T(w1, kind, seed)
        w0 = World(imm_nak=imm, limit=2, seg=4)
        # preset seq count and paths equal
        sp = SeqCountProvider(16)
        for _ in range(int(r1[1][0][2].split('seq')[0] and 0)): pass
        # find seq used by T in w1: from transaction indication string
        import re
        m = re.search(r'transaction_seq_num=ByteFieldU16\(val=(\d+)', r1[1][0][2]) if r1[1] else None
        n = int(m.group(1)) if m else 0
        for _ in range(n): w0.src.seq_num_provider.get_and_increment()
        # same file paths: reuse w1's dir names by symlink? simpler: compare with paths normalised
        r0 = do_T(w0, kind, seed)
        norm = lambda tr, w: [tuple(str(x).replace(str(w.dir), 'DIR') if not (isinstance(x, str) and len(x) > 30 and all(c in '0123456789abcdef' for c in x)) else x for x in e) for e in tr]
        # tx bytes contain path names in metadata -> compare only non-metadata tx + decode metadata separately
        def strip(tr, w):
            out = []
            for e in tr:
                if e[1] == 'tx' and bytes(str(w.dir), 'ascii').hex() in e[2]: out.append((e[0], 'tx', e[2].replace(bytes(str(w.dir), 'ascii').hex(), 'DIR')))
                else: out.append(tuple(str(x).replace(str(w.dir), 'DIR') for x in e))
            return out
        a, b = strip(r1[1], w1), strip(r0[1], w0)
        if (r1[0], a, r1[2]) != (r0[0], b, r0[2]):
            k = ('DIFF', tuple(hs)[-1], kind['mode'].name, len(kind['data']))
            bad[k] += 1
            if k not in ex:
                d = [(x, y) for x, y in zip(a, b) if x != y][:2]
                ex[k] = (seed, hs, r1[0], r0[0], len(a), len(b), d)
        w0.close(); w1.close()
    except Exception as e:
        tb = traceback.extract_tb(e.__traceback__); fr = ([f for f in tb if 'cfdppy' in f.filename] or [tb[-1]])[-1]
        bad[('EXC', type(e).__name__, str(e)[:60], fr.name, fr.lineno)] += 1
for k, v in bad.most_common(): print(v, k, ex.get(k))
print('done')
