from spacepackets.cfdp import *
from spacepackets.cfdp.pdu import *
from spacepackets.cfdp.pdu.helper import PduFactory
from spacepackets.cfdp.pdu.file_data import FileDataParams
from spacepackets.util import ByteFieldU8, ByteFieldU16
conf = PduConfig(ByteFieldU16(1), ByteFieldU16(2), ByteFieldU8(3), TransmissionMode.ACKNOWLEDGED)
e = EofPdu(conf, b"\x01\x02\x03\x04", 10, condition_code=ConditionCode.CANCEL_REQUEST_RECEIVED)
raw = e.pack()
e2 = PduFactory.from_raw(raw)
print(repr(e2.condition_code), type(e2.condition_code), type(e2.file_checksum))
fd = FileDataPdu(conf, FileDataParams(b"", 0))
try:
    print(PduFactory.from_raw(fd.pack()))
except Exception as ex:
    print("FD empty unpack:", type(ex), ex)
fd = FileDataPdu(conf, FileDataParams(b"a", 0))
print(PduFactory.from_raw(fd.pack()))
from spacepackets.cfdp.pdu.finished import FinishedParams
f = FinishedPdu(conf, FinishedParams(ConditionCode.CANCEL_REQUEST_RECEIVED, DeliveryCode.DATA_INCOMPLETE, FileStatus.FILE_RETAINED))
f2 = PduFactory.from_raw(f.pack())
print(repr(f2.condition_code), f2.finished_params)
a = AckPdu(conf, DirectiveType.EOF_PDU, ConditionCode.CANCEL_REQUEST_RECEIVED, TransactionStatus.ACTIVE)
a2 = PduFactory.from_raw(a.pack()); print(repr(a2.condition_code_of_acked_pdu), a2.directive_code_of_acked_pdu)
