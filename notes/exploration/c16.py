from lb import *
import lb
from cfdppy.filestore import VirtualFilestore, NativeFilestore, FilestoreResult
from crcmod.predefined import PredefinedCrc
import struct
class MemFs(VirtualFilestore):
    def __init__(self): self.files = {}; self.dirs = set(); self.calls = []
    def read_data(self, file, offset, read_len=None):
        self.calls.append('read_data')
        if file not in self.files: raise FileNotFoundError(file)
        d = self.files[file]; offset = offset or 0
        return bytes(d[offset:] if read_len is None else d[offset:offset+read_len])
    def read_from_opened_file(self, bytes_io, offset, read_len):
        self.calls.append('read_from_opened_file'); bytes_io.seek(offset); return bytes_io.read(read_len)
    def is_directory(self, path): return path in self.dirs
    def filename_from_full_path(self, path): return path.name
    def file_exists(self, path): return path in self.files or path in self.dirs
    def truncate_file(self, file):
        if file not in self.files: raise FileNotFoundError(file)
        self.files[file] = bytearray()
    def file_size(self, file):
        if file not in self.files: raise FileNotFoundError(file)
        return len(self.files[file])
    def write_data(self, file, data, offset):
        if file not in self.files: raise FileNotFoundError(file)
        d = self.files[file]; offset = offset or 0
        if len(d) < offset: d.extend(b'\0' * (offset - len(d)))
        d[offset:offset+len(data)] = data
    def create_file(self, file):
        if file in self.files: return FilestoreResult.CREATE_NOT_ALLOWED
        self.files[file] = bytearray(); return FilestoreResult.CREATE_SUCCESS
    def delete_file(self, file):
        if file not in self.files: return FilestoreResult.DELETE_FILE_DOES_NOT_EXIST
        del self.files[file]; return FilestoreResult.DELETE_SUCCESS
    def rename_file(self, a, b): return FilestoreResult.NOT_PERFORMED
    def replace_file(self, a, b): return FilestoreResult.NOT_PERFORMED
    def create_directory(self, d): return FilestoreResult.NOT_PERFORMED
    def remove_directory(self, d, recursive=False): return FilestoreResult.NOT_PERFORMED
    def list_directory(self, d, f, recursive=False): return FilestoreResult.NOT_PERFORMED
    def calculate_checksum(self, checksum_type, file_path, size_to_verify, segment_len=4096):
        if checksum_type == ChecksumType.NULL_CHECKSUM: return bytes(4)
        if file_path not in self.files: raise FileNotFoundError(file_path)
        d = bytes(self.files[file_path][:size_to_verify])
        c = PredefinedCrc('crc32' if checksum_type == ChecksumType.CRC_32 else 'crc32c'); c.update(d); return c.digest()
w = World(data=b'0123456789')
fs = MemFs()
w.suser.vfs = fs; w.duser.vfs = fs
sp = Path('/nonexistent-cfdp/src.bin'); dp = Path('/nonexistent-cfdp/dst.bin')
fs.files[sp] = bytearray(b'0123456789')
print(w.src.put_request(PutRequest(w.dst_id, sp, dp, None, None)))
try:
    print(run_clean(w)); print(fs.files.get(dp))
except Exception as e:
    import traceback; traceback.print_exc()
