import sys, os, collections, random, traceback, struct, zlib
from lb import *
from fx import PROTO_EXC
from spacepackets.cfdp.pdu.file_data import FileDataParams
from spacepackets.cfdp.pdu.metadata import MetadataParams
import logging; logging.disable(logging.CRITICAL)
def snap(root):
    t = {}
    for dp, dn, fn in os.walk(root):
        for d in dn: t[os.path.relpath(os.path.join(dp, d), root)] = None
        for f in fn: t[os.path.relpath(os.path.join(dp, f), root)] = open(os.path.join(dp, f), 'rb').read()
    return t
def run(seed, verbose=False):
    rng = random.Random(seed)
    mode = rng.choice(list(TransmissionMode)); disp = rng.random() < 0.5
    w = World(mode=mode, closure=rng.random() < 0.5, seg=4, imm_nak=rng.random() < 0.5, limit=2, disp=disp, data=b'SRCDATA')
    (w.dir / 'out').mkdir(); (w.dir / 'out' / 'decoy.bin').write_bytes(b'decoy'); (w.dir / 'decoy2').write_bytes(b'd2')
    model = snap(w.dir)
    problems = []
    seqn = 0
    for tx in range(rng.randrange(1, 4)):
        seqn += 1
        conf = PduConfig(w.src_id, w.dst_id, ByteFieldU16(seqn), mode)
        destkind = rng.choice(['file', 'dir', 'existing'])
        if destkind == 'dir': dpath = w.dir / 'out'; resolved = 'out/src.bin'
        else: dpath = w.dir / ('dst%d.bin' % tx); resolved = 'dst%d.bin' % tx
        if destkind == 'existing': dpath.write_bytes(b'OLDOLDOLDOLDOLD'); model[resolved] = b'OLDOLDOLDOLDOLD'
        size = rng.choice([0, 4, 8, 10])
        md = MetadataPdu(conf, MetadataParams(rng.random() < 0.5, ChecksumType.CRC_32, size, w.sfile.as_posix(), dpath.as_posix()))
        have_md = False
        for step in range(rng.randrange(3, 25)):
            r = rng.random(); p = None; act = None
            if r < 0.15: p = md
            elif r < 0.65:
                off = rng.choice([0, 0, 2, 4, 4, 6, 8, 12, 30]); ln = rng.choice([1, 2, 4, 4, 7])
                p = FileDataPdu(conf, FileDataParams(bytes(rng.randrange(256) for _ in range(ln)), off))
            elif r < 0.75: p = EofPdu(conf, bytes(4), rng.choice([0, 4, 8, 10]), condition_code=rng.choice([ConditionCode.NO_ERROR]*3 + [ConditionCode.CANCEL_REQUEST_RECEIVED]))
            elif r < 0.8: p = AckPdu(conf, DirectiveType.FINISHED_PDU, ConditionCode.NO_ERROR, TransactionStatus.ACTIVE)
            elif r < 0.88: act = 'time'
            elif r < 0.93: act = 'cancel'
            mark = len(w.log)
            was_idle = w.dst.state == CfdpState.IDLE
            exc = None
            try:
                if act == 'time': CLOCK.advance(1001); w.dst.state_machine()
                elif act == 'cancel':
                    if w.dst.transaction_id is not None: w.dst.cancel_request(w.dst.transaction_id)
                else: w.dst.state_machine(wire(p) if p is not None else None)
            except PROTO_EXC as e: exc = type(e).__name__
            except ValueError as e:
                if 'lost segment' in str(e): exc = 'D12'
                else: raise
            while w.dst.get_next_packet() is not None: pass
            evs = w.log[mark:]
            for e in evs:
                if e[1] == 'metadata_recv':
                    model[resolved] = b''
                if e[1] == 'seg_recv' and isinstance(p, FileDataPdu):
                    cur = bytearray(model.get(resolved, b'')) if resolved in model else None
                    if cur is None: problems.append(('seg_recv_without_file', step)); continue
                    off = p.offset; d = p.file_data
                    if len(cur) < off: cur.extend(bytes(off - len(cur)))
                    cur[off:off+len(d)] = d; model[resolved] = bytes(cur)
                if e[1] == 'finished':
                    fp = e[2].finished_params
                    if fp.condition_code != ConditionCode.NO_ERROR and disp and fp.delivery_code == DeliveryCode.DATA_INCOMPLETE and fp.file_status == FileStatus.DISCARDED_DELIBERATELY:
                        model.pop(resolved, None)
            actual = snap(w.dir)
            if actual != model:
                diff = {k: (actual.get(k), model.get(k)) for k in set(actual) | set(model) if actual.get(k) != model.get(k)}
                problems.append(('tree_mismatch', tx, step, type(p).__name__ if p else act, exc, w.dst.step.name, [e[1] for e in evs], {k: v for k, v in list(diff.items())[:2]}))
                model = actual
            if verbose: print(tx, step, type(p).__name__ if p else act, getattr(p, 'offset', ''), exc, w.dst.state.name, w.dst.step.name, [e[1] for e in evs])
        # finish: force idle
        w.dst.reset(); 
        while w.dst.get_next_packet() is not None: pass
    w.close()
    return problems
if __name__ == '__main__':
    if len(sys.argv) > 2: print(run(int(sys.argv[2]), True)); sys.exit()
    c = collections.Counter(); ex = {}
    for s in range(int(sys.argv[1])):
        try: pr = run(s)
        except Exception as e:
            tb = traceback.extract_tb(e.__traceback__); fr = ([f for f in tb if 'cfdppy' in f.filename] or [tb[-1]])[-1]
            pr = [('EXC', type(e).__name__, str(e)[:60], fr.name, fr.lineno)]
        for p in pr:
            k = (p[0], p[3], p[4], p[5], tuple(p[6])) if p[0] == 'tree_mismatch' else p
            c[k] += 1; ex.setdefault(k, (s, p))
    for k, v in c.most_common(25): print(v, k, '\n      ', ex[k])
