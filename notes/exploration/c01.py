import fixes
import sys, collections, random, traceback, zlib, struct
from fx import *
import logging; logging.disable(logging.CRITICAL)
from cfdppy.filestore import NativeFilestore
class RejFs(NativeFilestore):
    def __init__(self, rng, p): super().__init__(); self.rng = rng; self.p = p; self.rej = 0
    def write_data(self, file, data, offset):
        if self.rng.random() < self.p:
            self.rej += 1; raise PermissionError(file)
        return super().write_data(file, data, offset)
def wire_flip(pdu, rng, pflip, stats):
    raw = bytearray(pdu.pack())
    if isinstance(pdu, FileDataPdu) and len(pdu.file_data) > 0 and rng.random() < pflip:
        hl = pdu.pdu_header.header_len + 4
        end = len(raw) - (2 if pdu.pdu_header.crc_flag else 0)
        i = rng.randrange(hl, end); raw[i] ^= 1 << rng.randrange(8); stats['flip'] += 1
    try: p = PduFactory.from_raw(bytes(raw))
    except Exception as e:
        stats['crcdrop'] += 1; return None
    if isinstance(p, EofPdu):
        p.condition_code = ConditionCode(p.condition_code >> 4) if p.condition_code > 15 else ConditionCode(p.condition_code); p.file_checksum = bytes(p.file_checksum)
    return p
def run1(seed):
    rng = random.Random(seed)
    mode = rng.choice(list(TransmissionMode)); closure = rng.random() < 0.5
    size = rng.choice([0, 1, 3, 4, 5, 8, 9, 12, 13, 40]); cks = rng.choice([ChecksumType.CRC_32, ChecksumType.CRC_32C])
    crc = rng.random() < 0.3
    w = World(mode=mode, closure=closure, seg=4, data=bytes(rng.randrange(256) for _ in range(size)), imm_nak=rng.random()<0.5, limit=rng.choice([2,3,6]), cks=cks, crc=crc)
    fs = RejFs(rng, rng.choice([0, 0, 0.1, 0.3])); w.duser.vfs = fs
    if rng.random() < 0.3: w.dfile.write_bytes(b'Q' * (size + 5))
    stats = collections.Counter()
    pdrop, pdup, pswap, pflip = [rng.choice([0, 0.05, 0.2, 0.4]) for _ in range(4)]
    ent = Entity(w)
    viol = []
    # hook finished indications to compare at that moment
    def mk(user, side):
        orig = user.transaction_finished_indication
        def ind(p):
            fp = p.finished_params
            succ = fp.condition_code == ConditionCode.NO_ERROR and fp.delivery_code == DeliveryCode.DATA_COMPLETE and (fp.file_status == FileStatus.FILE_RETAINED)
            if succ and (side == 'D' or closure or mode == TransmissionMode.ACKNOWLEDGED):
                cur = w.dfile.read_bytes() if w.dfile.exists() else None
                stats['succ_' + side] += 1
                if stats['flip'] or fs.rej: stats['succ_after_corruption'] += 1
                if cur != w.data: viol.append((side, cur, w.data))
            orig(p)
        user.transaction_finished_indication = ind
    mk(w.suser, 'S'); mk(w.duser, 'D')
    w.put()
    cur = {'s': None, 'd': None}
    def track():
        for k, h, cl in (('s', w.src, ent.closed_src), ('d', w.dst, ent.closed_dst)):
            t = h.transaction_id
            if t is not None: cur[k] = (t.source_id.value, t.seq_num.value)
            if h.state == CfdpState.IDLE and cur[k] is not None: cl.add(cur[k])
    def fault(q):
        if not q: return
        r = rng.random()
        if r < pdrop: q.pop(0); stats['drop'] += 1
        elif r < pdrop + pdup: q.insert(min(len(q), rng.randrange(1, 4)), q[0]); stats['dup'] += 1
        elif r < pdrop + pdup + pswap and len(q) >= 2: j = rng.randrange(1, len(q)); q[0], q[j] = q[j], q[0]; stats['swap'] += 1
    idle = 0
    for i in range(1500):
        prog = False
        fault(w.s2d)
        if w.s2d:
            p = wire_flip(w.s2d.pop(0), rng, pflip, stats)
            if p is not None: ent.deliver_to_dst(p)
            prog = True
        else:
            try:
                if w.step_dst(): prog = True
            except PROTO_EXC: pass
        track(); fault(w.d2s)
        if w.d2s:
            p = wire_flip(w.d2s.pop(0), rng, 0, stats)
            if p is not None: ent.deliver_to_src(p)
            prog = True
        else:
            try:
                if w.step_src(): prog = True
            except PROTO_EXC: pass
        track()
        if w.src.state == CfdpState.IDLE and w.dst.state == CfdpState.IDLE and not w.s2d and not w.d2s: break
        if not prog:
            idle += 1; CLOCK.advance(1001)
            if idle > 40: break
    w.close()
    return viol, stats, (mode.name, closure, size, cks.name, crc)
if __name__ == '__main__':
    tot = collections.Counter(); nviol = 0
    for s in range(int(sys.argv[1])):
        try:
            viol, stats, info = run1(s)
        except Exception as e:
            tb = traceback.extract_tb(e.__traceback__); fr = ([f for f in tb if 'cfdppy' in f.filename] or [tb[-1]])[-1]
            tot[('EXC', type(e).__name__, str(e)[:50], fr.name, fr.lineno)] += 1; continue
        tot.update(stats)
        if viol: nviol += 1; print('VIOL', s, info, viol[:1], dict(stats))
    print(nviol, dict(tot))
