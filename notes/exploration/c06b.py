import sys, collections, random, itertools, struct, zlib
from collections import deque
from lb import *
from tr import show
from fx import PROTO_EXC
from c06 import iv_sub, iv_norm
from spacepackets.cfdp.pdu.file_data import FileDataParams
from spacepackets.cfdp.pdu.metadata import MetadataParams
from cfdppy.filestore import NativeFilestore
import logging; logging.disable(logging.CRITICAL)
EV = []
class RecFs(NativeFilestore):
    def write_data(self, file, data, offset):
        super().write_data(file, data, offset); EV.append(('write', offset or 0, (offset or 0) + len(data)))
    def truncate_file(self, f): super().truncate_file(f); EV.append(('trunc',))
    def create_file(self, f): r = super().create_file(f); EV.append(('create',)); return r
class RecQ(deque):
    def append(self, holder):
        p = holder.pdu
        if isinstance(p, NakPdu): EV.append(('nak', p.start_of_scope, p.end_of_scope, list(p.segment_requests), len(p.pack())))
        super().append(holder)
def run(seed, verbose=False):
    global EV
    rng = random.Random(seed)
    seg = rng.choice([1, 3, 4, 8]); nseg = rng.choice([0, 1, 2, 3, 5, 9]); tail = rng.choice([0, 0, 1, seg - 1]) if seg > 1 else 0
    size = nseg * seg + tail; imm = rng.random() < 0.5
    hdr = 10; maxpkt = rng.choice([hdr + 1 + 8 + 8, hdr + 1 + 8 + 16, hdr + 1 + 8 + 24, 200])
    data = bytes(rng.randrange(256) for _ in range(size))
    w = World(mode=TransmissionMode.ACKNOWLEDGED, data=data, seg=seg, imm_nak=imm, limit=3, maxpkt=maxpkt)
    w.duser.vfs = RecFs(); w.dst._pdus_to_be_sent = RecQ()
    conf = PduConfig(w.src_id, w.dst_id, ByteFieldU16(0), TransmissionMode.ACKNOWLEDGED)
    md = MetadataPdu(conf, MetadataParams(False, ChecksumType.CRC_32, size, w.sfile.as_posix(), w.dfile.as_posix()))
    fds = [FileDataPdu(conf, FileDataParams(data[o:o+seg], o)) for o in range(0, size, seg)]
    eof = EofPdu(conf, struct.pack('!I', zlib.crc32(data)), size)
    out = []
    for p in [md] + fds + [eof]:
        r = rng.random()
        if r < 0.25: continue
        out.append(p)
        if r > 0.9: out.append(p)
    for _ in range(rng.randrange(5)):
        if len(out) >= 2:
            i = rng.randrange(len(out)); j = min(len(out) - 1, i + rng.randrange(1, 4)); out[i], out[j] = out[j], out[i]
    problems = []; pending = list(out); stored = []; have_md = False; eof_size = None; max_end = 0; md_size = None
    nseq = 0; multi = 0; steps = 0; eof_resend = 0
    while steps < 300:
        steps += 1
        p = wire(pending.pop(0)) if pending else None
        EV = []; mark = len(w.log)
        try: w.dst.state_machine(p)
        except PROTO_EXC as e: pass
        except ValueError as e:
            if 'lost segment' in str(e): problems.append(('D12',)); break
            raise
        # merge indication events into order? metadata_recv position relative to nak: use w.log order vs EV is separate; approximate: metadata accepted in this call => treat per-call below
        md_in_call = any(e[1] == 'metadata_recv' for e in w.log[mark:])
        if isinstance(p, FileDataPdu): max_end = max(max_end, p.offset + len(p.file_data))
        naks_in_call = []
        cur_stored = list(stored)
        for e in EV:
            if e[0] == 'write': cur_stored.append((e[1], e[2]))
            elif e[0] == 'nak':
                _, s0, s1, reqs, plen = e
                naks_in_call.append(e)
                known_extent = max([x for x in (eof_size if eof_size is not None else (p.file_size if isinstance(p, EofPdu) else None), md_size, max_end) if x is not None] or [0])
                for (a, b) in reqs:
                    if (a, b) == (0, 0):
                        if have_md and not md_in_call: problems.append(('mdreq_with_md',))
                        continue
                    if not (0 <= a < b <= known_extent): problems.append(('outside_extent', (a, b), known_extent))
                    for (x, y) in iv_norm(cur_stored):
                        if max(a, x) < min(b, y): problems.append(('requests_stored', (a, b), (x, y)))
                    if not (s0 <= a and b <= s1): problems.append(('scope', (a, b), (s0, s1)))
        stored = cur_stored
        if md_in_call: have_md = True; md_size = size
        if isinstance(p, EofPdu) and eof_size is None and any(e[1] == 'eof_recv' for e in w.log[mark:]): eof_size = p.file_size
        # deferred sequence check
        if naks_in_call and eof_size is not None and w.dst.deferred_lost_segment_procedure_active and not (imm and not any(len(n[3]) for n in naks_in_call)):
            # is it the deferred sequence (scope end == eof size & issued by deferred proc)? immediate NAKs in same call are possible before; take those with scope (0,eof)
            seqn = [n for n in naks_in_call if (n[1], n[2]) == (0, eof_size)]
            # stored at time of first deferred nak
            idx = EV.index(seqn[0]) if seqn else None
            if seqn:
                st = [(e[1], e[2]) for e in EV[:idx] if e[0] == 'write']
                st_before = iv_norm([x for x in stored if x not in [(e[1], e[2]) for e in EV if e[0] == 'write']] + st) if False else None
                base = list(cur_stored)
                for e in EV[idx:]:
                    if e[0] == 'write' and (e[1], e[2]) in base: base.remove((e[1], e[2]))
                missing = [(0, eof_size)]
                for a, b in base: missing = iv_sub(missing, a, b)
                missing = iv_norm(missing)
                req = iv_norm([r for n in seqn for r in n[3] if r != (0, 0)])
                nseq += 1
                if len(seqn) > 1: multi += 1
                if req != missing: problems.append(('deferred_set', req, missing, [n[3] for n in seqn]))
                mdreq = any((0, 0) in n[3] for n in seqn)
                had_md_before = have_md and not md_in_call
                if mdreq == had_md_before and not md_in_call: problems.append(('deferred_md', mdreq, had_md_before))
                for n in seqn:
                    if n[4] > maxpkt: problems.append(('toolong', n[4], maxpkt, n[3]))
        # collect emitted, service naks
        while (h := w.dst.get_next_packet()) is not None:
            q = h.pdu
            if isinstance(q, NakPdu) and rng.random() < 0.8:
                for (a, b) in q.segment_requests:
                    if rng.random() < 0.15: continue
                    if (a, b) == (0, 0): pending.append(md)
                    else:
                        o = a
                        while o < b:
                            c = min(seg, b - o); pending.append(FileDataPdu(conf, FileDataParams(data[o:o+c], o))); o += c
            if isinstance(q, FinishedPdu): pending.append(AckPdu(conf, DirectiveType.FINISHED_PDU, q.condition_code, TransactionStatus.ACTIVE))
        if verbose: print(show(p) if p else None, '->', w.dst.step.name, EV)
        if w.dst.state == CfdpState.IDLE and not pending: break
        if p is None:
            CLOCK.advance(1001)
            if eof_size is None and eof_resend < 3 and not pending: pending.append(eof); eof_resend += 1
    fins = [(e[2].finished_params.condition_code.name, e[2].finished_params.delivery_code.name) for e in w.log if e[1] == 'finished']
    ok = w.dfile.exists() and w.dfile.read_bytes() == data
    w.close()
    return problems, (tuple(fins), ok), nseq, multi
if __name__ == '__main__':
    if len(sys.argv) > 2: print(run(int(sys.argv[2]), True)); sys.exit()
    c = collections.Counter(); ex = {}; rc = collections.Counter(); NS = NM = 0
    for s in range(int(sys.argv[1])):
        pr, res, nseq, multi = run(s); NS += nseq; NM += multi
        rc[res] += 1
        for p in set(x[0] for x in pr): c[p] += 1; ex.setdefault(p, (s, [x for x in pr if x[0] == p][0]))
    print('deferred sequences checked', NS, 'multi-PDU', NM)
    for k, v in c.most_common(): print(v, k, ex[k])
    for k, v in rc.most_common(6): print(v, k)
