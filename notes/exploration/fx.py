import fixes
import random, traceback, collections, sys
from lb import *
from cfdppy.exceptions import *
from cfdppy.handler.dest import acknowledge_inactive_eof_pdu
from cfdppy.handler.common import get_packet_destination, PacketDestination
PROTO_EXC = (NoRemoteEntityCfgFound, FsmNotCalledAfterPacketInsertion, SourceFileDoesNotExist, ChecksumNotImplemented,
             UnretrievedPdusToBeSent, InvalidNakPdu, InvalidPduDirection, InvalidSourceId, InvalidDestinationId,
             InvalidTransactionSeqNum, BusyError, InvalidPduForSourceHandler, PduIgnoredForSource, InvalidPduForDestHandler, PduIgnoredForDest)

def tid_of(p): return (p.source_entity_id.value, p.transaction_seq_num.value)

class Entity:
    """Surrounding entity shell: routing by transaction history."""
    def __init__(self, w):
        self.w = w; self.closed_src = set(); self.closed_dst = set(); self.exc = []
    def deliver_to_dst(self, p):
        w = self.w
        t = tid_of(p)
        if t in self.closed_dst:
            if isinstance(p, EofPdu):
                ack = acknowledge_inactive_eof_pdu(p, TransactionStatus.TERMINATED)
                w.d2s.append(ack); w.log.append(('D', 'tx-shell', ack))
            return
        before = w.dst.state
        try:
            w.step_dst(p)
        except PROTO_EXC as e:
            self.exc.append(('D', type(e).__name__, str(e)))
            w.drain(w.dst, w.d2s, 'D')
        self.note()
    def deliver_to_src(self, p):
        w = self.w
        t = tid_of(p)
        if t in self.closed_src:
            if isinstance(p, FinishedPdu):
                conf = copy.copy(p.pdu_header.pdu_conf)
                ack = AckPdu(conf, DirectiveType.FINISHED_PDU, p.condition_code, TransactionStatus.TERMINATED)
                w.s2d.append(ack); w.log.append(('S', 'tx-shell', ack))
            return
        try:
            w.step_src(p)
        except PROTO_EXC as e:
            self.exc.append(('S', type(e).__name__, str(e)))
            w.drain(w.src, w.s2d, 'S')
        self.note()
    def note(self):
        pass

def run(w, rng, pdrop=0.1, pdup=0.05, preorder=0.1, maxfaults=3, maxsteps=3000, trace=None):
    ent = Entity(w)
    faults = 0
    # track tids for closing
    cur_src_tid = [None]; cur_dst_tid = [None]
    def track():
        if w.src.transaction_id is not None: cur_src_tid[0] = (w.src.transaction_id.source_id.value, w.src.transaction_id.seq_num.value)
        if w.dst.transaction_id is not None: cur_dst_tid[0] = (w.dst.transaction_id.source_id.value, w.dst.transaction_id.seq_num.value)
        if w.src.state == CfdpState.IDLE and cur_src_tid[0] is not None: ent.closed_src.add(cur_src_tid[0])
        if w.dst.state == CfdpState.IDLE and cur_dst_tid[0] is not None: ent.closed_dst.add(cur_dst_tid[0])
    def fault_link(q):
        nonlocal faults
        if not q or faults >= maxfaults: return
        r = rng.random()
        if r < pdrop:
            p = q.pop(0); faults += 1; trace.append(('drop', type(p).__name__))
        elif r < pdrop + pdup:
            q.insert(1, q[0]); faults += 1; trace.append(('dup', type(q[0]).__name__))
        elif r < pdrop + pdup + preorder and len(q) >= 2:
            q[0], q[1] = q[1], q[0]; faults += 1; trace.append(('swap', type(q[0]).__name__, type(q[1]).__name__))
    idle_rounds = 0
    for i in range(maxsteps):
        progressed = False
        fault_link(w.s2d)
        if w.s2d:
            ent.deliver_to_dst(wire(w.s2d.pop(0))); progressed = True
        else:
            try:
                if w.step_dst(): progressed = True
            except PROTO_EXC as e: ent.exc.append(('D', type(e).__name__, str(e)))
        track()
        fault_link(w.d2s)
        if w.d2s:
            ent.deliver_to_src(wire(w.d2s.pop(0))); progressed = True
        else:
            try:
                if w.step_src(): progressed = True
            except PROTO_EXC as e: ent.exc.append(('S', type(e).__name__, str(e)))
        track()
        if w.src.state == CfdpState.IDLE and w.dst.state == CfdpState.IDLE and not w.s2d and not w.d2s:
            return ('done', i, faults, ent)
        if not progressed:
            idle_rounds += 1
            CLOCK.advance(1001)
            if idle_rounds > 60: return ('stuck', i, faults, ent)
        else:
            pass
    return ('maxsteps', i, faults, ent)

if __name__ == '__main__':
    seed0 = int(sys.argv[1]) if len(sys.argv) > 1 else 0
    N = int(sys.argv[2]) if len(sys.argv) > 2 else 300
    stats = collections.Counter(); examples = {}
    for k in range(N):
        rng = random.Random(seed0 * 100000 + k)
        size = rng.choice([0, 1, 3, 4, 5, 8, 9, 12, 13])
        imm = rng.random() < 0.5
        closure = rng.random() < 0.5
        w = World(mode=TransmissionMode.ACKNOWLEDGED, closure=closure, seg=4, data=bytes(rng.randrange(256) for _ in range(size)), imm_nak=imm, limit=6)
        w.put()
        trace = []
        try:
            res, steps, faults, ent = run(w, rng, trace=trace, maxfaults=rng.choice([1,2,3]))
            ok = w.dfile.exists() and w.dfile.read_bytes() == w.data
            fins = tuple((e[0], e[2].finished_params.condition_code.name, e[2].finished_params.delivery_code.name) for e in w.log if e[1]=='finished')
            fh = tuple((e[0], e[1], e[2].name) for e in w.log if e[1].startswith('fh_'))
            key = (res, ok, fins, fh, tuple(sorted(set((x[0], x[1]) for x in ent.exc))))
        except Exception as ex:
            tb = traceback.extract_tb(ex.__traceback__)[-1]
            key = ('EXC', type(ex).__name__, str(ex)[:80], tb.name, tb.lineno)
        stats[key] += 1
        examples.setdefault(key, (k, size, imm, closure, trace))
        w.close()
    for k, v in stats.most_common():
        print(v, k, '\n    ex:', examples[k])
