import sys, itertools, collections, traceback, random
from lb import *
import lb
import logging; logging.disable(logging.CRITICAL)
from spacepackets.util import ByteFieldU8, ByteFieldU16, ByteFieldU32, ByteFieldU64
IDC = {1: ByteFieldU8, 2: ByteFieldU16, 4: ByteFieldU32, 8: ByteFieldU64}
def case(mode, closure, cks, crc, idw_l, idw_r, seqw, seg, maxpkt, size, imm, destkind, pacing, seed=0):
    rng = random.Random(seed)
    w = World(mode=mode, closure=closure, seg=seg, maxpkt=maxpkt, crc=crc, cks=cks, imm_nak=imm, limit=3, idcls=IDC[idw_l], seqw=seqw,
              data=bytes(rng.randrange(256) for _ in range(size)))
    if idw_r != idw_l:
        # remote (dest) id with different width: rebuild dest id + cfgs
        w.dst_id = IDC[idw_r](2)
        w.rc_dst.entity_id = w.dst_id
        w.tbl = RemoteEntityCfgTable([w.rc_dst, w.rc_src])
        w.src.remote_cfg_table = w.tbl; w.dst.remote_cfg_table = w.tbl
        w.dst.cfg.local_entity_id = w.dst_id
    dfile = w.dfile
    if destkind == 'dir':
        d = w.dir / 'outdir'; d.mkdir(); dfile = d; expect = d / w.sfile.name
    elif destkind == 'existing':
        w.dfile.write_bytes(b'Z' * (size + 7)); expect = w.dfile
    else: expect = w.dfile
    ok = w.src.put_request(PutRequest(w.dst_id, w.sfile, dfile, None, None))
    assert ok
    for i in range(4 * (size // max(seg or 64,1) + 1) + 60):
        if pacing == 'lockstep':
            if w.s2d: w.step_dst(wire(w.s2d.pop(0)))
            else: w.step_dst()
            if w.d2s: w.step_src(wire(w.d2s.pop(0)))
            else: w.step_src()
        elif pacing == 'srcfirst':   # source runs ahead, dest drains later
            w.step_src(wire(w.d2s.pop(0)) if w.d2s else None)
            if i % 3 == 2:
                while w.s2d: w.step_dst(wire(w.s2d.pop(0)))
                w.step_dst()
        else:  # extra idle calls
            if w.s2d: w.step_dst(wire(w.s2d.pop(0)))
            w.step_dst(); w.step_dst()
            if w.d2s: w.step_src(wire(w.d2s.pop(0)))
            w.step_src()
        if w.src.state == CfdpState.IDLE and w.dst.state == CfdpState.IDLE and not w.s2d and not w.d2s: break
    fins = sorted((e[0], e[2].finished_params.condition_code.name, e[2].finished_params.delivery_code.name) for e in w.log if e[1] == 'finished')
    fh = [e for e in w.log if e[1].startswith('fh_')]
    good = (w.src.state == CfdpState.IDLE and w.dst.state == CfdpState.IDLE and expect.exists() and expect.read_bytes() == w.data
            and fins == [('D','NO_ERROR','DATA_COMPLETE'),('S','NO_ERROR','DATA_COMPLETE')] and not fh)
    res = None if good else (w.src.step.name, w.dst.step.name, fins, [(e[1], e[2].name) for e in fh], expect.exists())
    w.close(); return res
if __name__ == '__main__':
    rng = random.Random(int(sys.argv[2]) if len(sys.argv) > 2 else 0)
    bad = collections.defaultdict(list); n = 0
    for _ in range(int(sys.argv[1])):
        idw_l = rng.choice([1,2,4,8]); idw_r = rng.choice([idw_l, idw_l, 1, 2, 4])
        seqw = rng.choice([8,16,32]); crc = rng.random() < 0.5
        hdr = 4 + 2 * max(idw_l, idw_r) + seqw // 8
        seg = rng.choice([1, 2, 5, 64, None])
        maxpkt = rng.choice([hdr + 12 + 2 + 16, 64 + hdr, 4096])
        cfg = dict(mode=rng.choice(list(TransmissionMode)), closure=rng.random()<0.5, cks=rng.choice([ChecksumType.NULL_CHECKSUM, ChecksumType.MODULAR, ChecksumType.CRC_32, ChecksumType.CRC_32C]),
                   crc=crc, idw_l=idw_l, idw_r=idw_r, seqw=seqw, seg=seg, maxpkt=maxpkt, size=rng.choice([0,1,4,5,6,10,64,65,130]), imm=rng.random()<0.5,
                   destkind=rng.choice(['file','dir','existing']), pacing=rng.choice(['lockstep','srcfirst','idle']))
        n += 1
        try: r = case(**cfg, seed=n)
        except Exception as e:
            tb = traceback.extract_tb(e.__traceback__); fr = ([f for f in tb if 'cfdppy' in f.filename] or [tb[-1]])[-1]
            r = ('EXC', type(e).__name__, str(e)[:70], fr.name, fr.lineno)
        if r is not None: bad[str(r)[:160]].append(cfg)
    print('cases', n, 'bad', sum(len(v) for v in bad.values()))
    for k, v in bad.items():
        print(len(v), k); 
        for c in v[:3]: print('     ', {a: (b.name if hasattr(b, 'name') else b) for a, b in c.items()})
