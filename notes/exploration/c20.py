from lb import *
from fx import PROTO_EXC
from cfdppy.handler.common import get_packet_destination, PacketDestination
from cfdppy.exceptions import *
from spacepackets.cfdp.pdu.file_data import FileDataParams
from spacepackets.cfdp.pdu.metadata import MetadataParams
from spacepackets.cfdp.pdu.finished import FinishedParams
from spacepackets.cfdp.pdu.prompt import PromptPdu, ResponseRequired
from spacepackets.cfdp.pdu.keep_alive import KeepAlivePdu
import logging; logging.disable(logging.CRITICAL)
def mk(kind, conf, w):
    if kind == 'MD': return MetadataPdu(conf, MetadataParams(False, ChecksumType.CRC_32, 4, w.sfile.as_posix(), w.dfile.as_posix()))
    if kind == 'FD': return FileDataPdu(conf, FileDataParams(b'abcd', 0))
    if kind == 'EOF': return EofPdu(conf, b'\0\0\0\0', 4)
    if kind == 'ACK_EOF': return AckPdu(conf, DirectiveType.EOF_PDU, ConditionCode.NO_ERROR, TransactionStatus.ACTIVE)
    if kind == 'ACK_FIN': return AckPdu(conf, DirectiveType.FINISHED_PDU, ConditionCode.NO_ERROR, TransactionStatus.ACTIVE)
    if kind == 'NAK': return NakPdu(copy.copy(conf), 0, 4, [(0, 4)])
    if kind == 'FIN': return FinishedPdu(conf, FinishedParams(ConditionCode.NO_ERROR, DeliveryCode.DATA_COMPLETE, FileStatus.FILE_RETAINED))
    if kind == 'PROMPT': return PromptPdu(conf, ResponseRequired.KEEP_ALIVE)
    if kind == 'KA': return KeepAlivePdu(conf, 3)
OTHER_SIDE = (InvalidPduForSourceHandler, InvalidPduForDestHandler)
for mode in TransmissionMode:
  for kind in ['MD','FD','EOF','ACK_EOF','ACK_FIN','NAK','FIN','PROMPT','KA']:
    for d in Direction:
        w = World(mode=mode, closure=True, data=b'abcd')
        w.put(); w.step_src(); w.s2d.clear()   # source busy with seq 0
        conf = PduConfig(w.src_id, w.dst_id, ByteFieldU16(0), mode)
        p = mk(kind, conf, w); p.pdu_header.direction = d
        route = get_packet_destination(p).name
        res = {}
        for name, h in (('S', w.src), ('D', w.dst)):
            p = mk(kind, conf, w); p.pdu_header.direction = d
            try:
                h.state_machine(p); res[name] = 'accepted'
            except Exception as e: res[name] = type(e).__name__
        print(mode.name[:5], kind, d.name, '->', route, res)
        w.close()
