from lb import *
from tr import show
from cfdppy.exceptions import *
import logging; logging.disable(logging.CRITICAL)
def probe(reqs, when):
    w = World(mode=TransmissionMode.ACKNOWLEDGED, data=bytes(range(10)), seg=4)
    w.put()
    for _ in range(when): w.step_src()
    w.s2d.clear()
    conf = PduConfig(w.src_id, w.dst_id, ByteFieldU16(0), TransmissionMode.ACKNOWLEDGED)
    nak = NakPdu(conf, 0, 10, reqs)
    before = (w.src.step.name, w.src.progress)
    try:
        w.step_src(nak); r = 'ok'
    except Exception as e:
        r = type(e).__name__ + ':' + str(e); w.drain(w.src, w.s2d, 'S')
    out = [show(p) for p in w.s2d]; w.s2d.clear()
    nxt = []
    for _ in range(8):
        try: w.step_src()
        except Exception as e: nxt.append(type(e).__name__); break
        nxt += [show(p) for p in w.s2d]; w.s2d.clear()
    print(reqs, 'when', when, before, '->', r, out, '| then', nxt, w.src.step.name)
    w.close()
for when in (2, 3, 5):
    for reqs in ([(0, 4)], [(4, 20)], [(8, 12)], [(2, 3)], [(6, 2)], [(12, 16)], [(0,0),(0,10)], [(0, 4), (12, 16)], [(5,5)], [(10, 14)]):
        probe(reqs, when)
