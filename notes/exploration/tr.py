import fixes
import sys
from fx import *
def show(p):
    n = type(p).__name__
    if isinstance(p, FileDataPdu): return f"FD[{p.offset},{p.offset+len(p.file_data)})"
    if isinstance(p, EofPdu): return f"EOF(size={p.file_size},cc={int(p.condition_code)},ck={bytes(p.file_checksum).hex()})"
    if isinstance(p, NakPdu): return f"NAK(scope={p.start_of_scope}-{p.end_of_scope},{p.segment_requests})"
    if isinstance(p, AckPdu): return f"ACK({p.directive_code_of_acked_pdu.name},{p.condition_code_of_acked_pdu.name},{p.transaction_status.name})"
    if isinstance(p, FinishedPdu): return f"FIN({p.condition_code.name},{p.delivery_code.name},{p.file_status.name})"
    if isinstance(p, MetadataPdu): return f"MD(size={p.file_size})"
    return n
def dump(w):
    for e in w.log:
        if e[1] in ('tx', 'tx-shell'): print('  ', e[0], e[1], show(e[2]))
        elif e[1] == 'finished': print('  ', e[0], 'IND finished', e[2].finished_params)
        else: print('  ', e[0], 'IND', e[1], *[str(x) for x in e[2:]])
if __name__ == '__main__':
    seed0 = int(sys.argv[1]); k = int(sys.argv[2])
    rng = random.Random(seed0 * 100000 + k)
    size = rng.choice([0, 1, 3, 4, 5, 8, 9, 12, 13])
    imm = rng.random() < 0.5
    closure = rng.random() < 0.5
    w = World(mode=TransmissionMode.ACKNOWLEDGED, closure=closure, seg=4, data=bytes(rng.randrange(256) for _ in range(size)), imm_nak=imm, limit=6)
    w.put()
    trace = []
    try:
        res = run(w, rng, trace=trace, maxfaults=rng.choice([1,2,3]))
        print(res[:3], res[3].exc)
    except Exception as ex:
        traceback.print_exc()
    print('size', size, 'imm', imm, 'closure', closure, trace)
    dump(w)
    print('src', w.src.state, w.src.step, 'dst', w.dst.state, w.dst.step, 'lost', w.dst._params.acked_params.lost_seg_tracker.lost_segments)
