import fixes
from lb import *
from tr import show
from fx import PROTO_EXC
import logging; logging.disable(logging.CRITICAL)
import collections
def run_cancel(mode, closure, side, at, size=10, disp=False, wrong=False):
    w = World(mode=mode, closure=closure, data=bytes(range(size)), seg=4, limit=2, disp=disp)
    w.put()
    cancelled = None; after = []
    exc = []
    idle = 0
    for i in range(200):
        if i == at and cancelled is None:
            h = w.src if side == 'S' else w.dst
            tid = h.transaction_id
            if wrong: tid = TransactionId(ByteFieldU16(1), ByteFieldU16(77))
            try:
                cancelled = (h.cancel_request(tid) if tid is not None else 'notid', h.state.name, h.step.name, w.src.progress)
            except Exception as e: cancelled = ('EXC ' + type(e).__name__, h.state.name, h.step.name)
            mark = len(w.log)
        prog = False
        try:
            if w.s2d: w.step_dst(wire(w.s2d.pop(0))); prog = True
            elif w.step_dst(): prog = True
        except PROTO_EXC as e: exc.append('D ' + type(e).__name__); w.drain(w.dst, w.d2s, 'D')
        try:
            if w.d2s: w.step_src(wire(w.d2s.pop(0))); prog = True
            elif w.step_src(): prog = True
        except PROTO_EXC as e: exc.append('S ' + type(e).__name__); w.drain(w.src, w.s2d, 'S')
        if w.src.state == CfdpState.IDLE and w.dst.state == CfdpState.IDLE and not w.s2d and not w.d2s and i > at: break
        if not prog:
            idle += 1; CLOCK.advance(1001)
            if idle > 12: break
    post = [(e[0], show(e[2])) for e in w.log[mark:] if e[1] == 'tx'] if cancelled else []
    fins = [(e[0], e[2].finished_params.condition_code.name, e[2].finished_params.delivery_code.name, e[2].finished_params.file_status.name, e[2].finished_params.fault_location) for e in w.log if e[1]=='finished']
    print(mode.name[:3], 'cl' if closure else 'nc', side, 'at', at, 'disp', disp, cancelled, '| S', w.src.state.name, 'D', w.dst.state.name, w.dst.step.name, '| file', w.dfile.exists(), '\n      post', post[:6], '\n      fins', fins, collections.Counter(exc))
    w.close()
import sys
for mode in TransmissionMode:
    for closure in (False, True):
        for side in ('S', 'D'):
            for at in (0, 1, 2, 3, 4, 5, 6):
                try: run_cancel(mode, closure, side, at, disp=(at % 2 == 0))
                except Exception as e:
                    import traceback; tb = traceback.extract_tb(e.__traceback__); fr = [f for f in tb if 'cfdppy' in f.filename][-1]
                    print(mode.name[:3], closure, side, at, 'CRASH', type(e).__name__, e, fr.name, fr.lineno)
