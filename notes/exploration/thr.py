import fixes, sys, threading, time, random, collections
import lb
from lb import *
import spacepackets.countdown as cd
tl = threading.local()
class TClock:
    def __call__(self):
        return getattr(tl, 'now', 1_000_000)
cd.time_ms = TClock()
mon = sys.monitoring; TOOL = 3
mon.use_tool_id(TOOL, 'yield')
rng = random.Random(1); switches = collections.Counter()
import cfdppy.handler.dest as D, cfdppy.handler.source as S
files = {D.__file__, S.__file__}
def on_line(code, line):
    if code.co_filename not in files: return mon.DISABLE
    if rng.random() < 0.05:
        switches[threading.get_ident()] += 1; time.sleep(0)
mon.register_callback(TOOL, mon.events.LINE, on_line)
def worker(i, out):
    tl.now = 1_000_000
    res = []
    for k in range(30):
        w = World(mode=TransmissionMode.ACKNOWLEDGED, data=bytes((i * 7 + k + j) % 256 for j in range(10)), seg=4)
        w.put(); n = run_clean(w)
        res.append((n, w.dfile.read_bytes() == w.data, [type(e[2]).__name__ for e in w.log if e[1] == 'tx']))
        w.close()
    out[i] = res
solo = {}; worker(0, solo)
sys.setswitchinterval(1e-6)
mon.set_events(TOOL, mon.events.LINE)
t0 = time.time(); out = {}
ths = [threading.Thread(target=worker, args=(i, out)) for i in range(4)]
[t.start() for t in ths]; [t.join() for t in ths]
mon.set_events(TOOL, 0)
print('time', time.time() - t0, 'switches', dict(switches))
print(all(all(r[1] for r in out[i]) for i in out), out[0][0] == solo[0][0])
