# emulate candidate fixes by monkeypatching (scratch only)
import os
import cfdppy.handler.dest as d
if os.environ.get('FIX_TRACKER', '1') == '1':
    _orig = d._AckedModeParams.__init__
    def _patched(self, *a, **k):
        _orig(self, *a, **k)
        if not a and 'lost_seg_tracker' not in k:
            self.lost_seg_tracker = d.LostSegmentTracker()
    d._AckedModeParams.__init__ = _patched
