import sys, ast
from k1 import *
size=int(sys.argv[1]); imm = sys.argv[2]=='1'; faults = ast.literal_eval(sys.argv[3])
lim = int(sys.argv[4]) if len(sys.argv)>4 else 5
w = World(closure=False, seg=4, data=bytes(range(size)), imm_nak=imm, limit=lim); w.put()
try:
    res, steps, ent = run_sched(w, faults)
    print(res, steps, ent.exc, classify(w,res,ent))
except Exception:
    traceback.print_exc()
dump(w)
print('src', w.src.state, w.src.step, 'dst', w.dst.state, w.dst.step, 'lost', w.dst._params.acked_params.lost_seg_tracker.lost_segments, w.dfile.read_bytes() if w.dfile.exists() else None)
