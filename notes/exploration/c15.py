import sys, collections, random, traceback
from lb import *
from tr import show
from fx import PROTO_EXC, Entity
import logging; logging.disable(logging.CRITICAL)
def run(seed):
    rng = random.Random(seed)
    mode = rng.choice(list(TransmissionMode)); closure = rng.random() < 0.5
    size = rng.choice([0, 3, 8, 13]); 
    w = World(mode=mode, closure=closure, data=bytes(rng.randrange(256) for _ in range(size)), seg=4, limit=3, imm_nak=rng.random() < 0.5)
    sw = [rng.random() < 0.5 for _ in range(4)]
    for h in (w.src, w.dst):
        ic = h.cfg.indication_cfg
        ic.eof_sent_indication_required, ic.eof_recv_indication_required, ic.file_segment_recvd_indication_required, ic.transaction_finished_indication_required = sw
    ent = Entity(w); w.put()
    pdrop = rng.choice([0, 0, 0.1, 0.2]); cancel_at = rng.choice([None, None, rng.randrange(1, 8)]); cancel_side = rng.choice('SD')
    events = []   # unified: ('rx', side, pdu) / ('tx', side, pdu) / ('ind', side, name, payload)
    problems = []
    cur = {'s': None, 'd': None}
    idle = 0
    def deliver(side, p):
        mark = len(w.log)
        try:
            if side == 'D':
                if p is not None and (p.source_entity_id.value, p.transaction_seq_num.value) in ent.closed_dst: ent.deliver_to_dst(p); return
                w.dst.state_machine(p); w.drain(w.dst, w.d2s, 'D')
            else:
                if p is not None and (p.source_entity_id.value, p.transaction_seq_num.value) in ent.closed_src: ent.deliver_to_src(p); return
                w.src.state_machine(p); w.drain(w.src, w.s2d, 'S')
            ok = True
        except PROTO_EXC as e:
            ok = False; w.drain(w.dst if side == 'D' else w.src, w.d2s if side == 'D' else w.s2d, side)
        new = w.log[mark:]
        inds = [e for e in new if e[0] == side and e[1] not in ('tx', 'tx-shell') and not e[1].startswith('fh_')]
        txs = [e[2] for e in new if e[0] == side and e[1] == 'tx']
        names = [e[1] for e in inds]
        # gating
        for nm, on in (('eof_sent', sw[0]), ('eof_recv', sw[1]), ('seg_recv', sw[2]), ('finished', sw[3])):
            if not on and nm in names: problems.append(('gating', nm))
        # completeness per call
        if side == 'S':
            n_eof = sum(isinstance(t, EofPdu) for t in txs)
            if sw[0] and names.count('eof_sent') != n_eof: problems.append(('eof_sent_count', names.count('eof_sent'), n_eof))
        else:
            if ok and isinstance(p, FileDataPdu):
                segs = [e for e in inds if e[1] == 'seg_recv']
                for e in segs:
                    if (e[2], e[3]) != (p.offset, len(p.file_data)): problems.append(('seg_params', e[2:], p.offset, len(p.file_data)))
            if 'seg_recv' in names and not isinstance(p, FileDataPdu): problems.append(('seg_without_fd',))
            if 'metadata_recv' in names and not isinstance(p, MetadataPdu): problems.append(('md_without_md',))
            if 'eof_recv' in names and not isinstance(p, EofPdu): problems.append(('eofrecv_without_eof',))
            # finished indication vs finished pdu emitted in this call
            fins = [e[2].finished_params for e in inds if e[1] == 'finished']
            fpdus = [t for t in txs if isinstance(t, FinishedPdu)]
            if fins and fpdus:
                f, q = fins[-1], fpdus[0]
                if (f.condition_code, f.delivery_code, f.file_status) != (q.condition_code, q.delivery_code, q.file_status): problems.append(('fin_mismatch',))
        for e in inds: events.append((side, e[1]))
    def track():
        for k, h, cl in (('s', w.src, ent.closed_src), ('d', w.dst, ent.closed_dst)):
            t = h.transaction_id
            if t is not None: cur[k] = (t.source_id.value, t.seq_num.value)
            if h.state == CfdpState.IDLE and cur[k] is not None: cl.add(cur[k])
    calls = 0
    for i in range(400):
        calls += 1
        if cancel_at == calls:
            h = w.src if cancel_side == 'S' else w.dst
            if h.transaction_id is not None:
                try:
                    h.cancel_request(h.transaction_id); w.drain(h, w.s2d if cancel_side == 'S' else w.d2s, cancel_side)
                except PROTO_EXC: pass
        prog = bool(w.s2d or w.d2s)
        if w.s2d and rng.random() < pdrop: w.s2d.pop(0)
        deliver('D', wire(w.s2d.pop(0)) if w.s2d else None); track()
        if w.d2s and rng.random() < pdrop: w.d2s.pop(0)
        deliver('S', wire(w.d2s.pop(0)) if w.d2s else None); track()
        if w.src.state == CfdpState.IDLE and w.dst.state == CfdpState.IDLE and not w.s2d and not w.d2s: break
        if not prog and not w.s2d and not w.d2s:
            idle += 1; CLOCK.advance(1001)
            if idle > 30: break
    # ordering
    sidx = [n for s, n in events if s == 'S']; didx = [n for s, n in events if s == 'D']
    if sidx and sidx[0] != 'transaction': problems.append(('transaction_not_first', sidx[:3]))
    if 'finished' in sidx and sidx.index('finished') != len(sidx) - 1: problems.append(('S_after_finished', sidx))
    if 'seg_recv' in didx and ('metadata_recv' not in didx or didx.index('seg_recv') < didx.index('metadata_recv')): problems.append(('seg_before_md', didx))
    if 'finished' in didx:
        last = len(didx) - 1 - didx[::-1].index('finished')
        if last != len(didx) - 1: problems.append(('D_after_finished', didx[last:]))
    w.close()
    return problems, (mode.name, closure, size, sw, pdrop, cancel_at, cancel_side)
c = collections.Counter(); ex = {}
for s in range(int(sys.argv[1])):
    try: pr, info = run(s)
    except Exception as e:
        tb = traceback.extract_tb(e.__traceback__); fr = ([f for f in tb if 'cfdppy' in f.filename] or [tb[-1]])[-1]
        pr, info = [('EXC', type(e).__name__, str(e)[:60], fr.name, fr.lineno)], None
    for p in pr:
        k = p[:2] if p[0] in ('gating', 'EXC') else p[:1]
        c[k] += 1; ex.setdefault(k, (s, p, info))
for k, v in c.most_common(): print(v, k, ex[k])
print('done')
