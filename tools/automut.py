#!/venv/bin/python
"""Systematic mutation sweep: generates syntactic mutants of src/cfdppy (AST based), keeps those which still pass the repository's own
78 tests (realistic: a change the suite does not notice) and runs the registered quick checks against each survivor.

usage: tools/automut.py --sample N [--seed S] [--files handler/source.py,handler/dest.py,...] [--out mutants/auto-results.json] [--resume]
Operators: comparison swap (< <= > >= == != is/is not), arithmetic constant +-1 on int literals, `and`<->`or`, negated `if` test,
dropped statement (assignment / expression / augmented assignment), swapped +/-, True<->False.
A mutant is applied to a scratch copy only; /repo is never touched.  Checks are tried in a fixed order and the sweep stops at the first
check that catches the mutant (the catching check is recorded); a mutant no check catches is listed as a survivor for manual triage
(equivalent mutant, outside every property, or a blind spot).
"""
import ast
import json
import os
import random
import shutil
import subprocess
import sys
import tempfile
from pathlib import Path

VERIF = Path(__file__).resolve().parent.parent
FILES = ["handler/source.py", "handler/dest.py", "handler/common.py", "filestore.py", "mib.py", "crc.py", "user.py", "request.py"]
ORDER = ["C20", "C19", "C13", "C04", "C12", "C02", "C17", "C14", "C08", "C07", "C03", "C16", "C15", "C10", "C01", "C11", "C06", "C09", "C05", "C18"]

CMP = {ast.Lt: [ast.LtE, ast.Gt], ast.LtE: [ast.Lt, ast.GtE], ast.Gt: [ast.GtE, ast.Lt], ast.GtE: [ast.Gt, ast.LtE], ast.Eq: [ast.NotEq], ast.NotEq: [ast.Eq],
       ast.Is: [ast.IsNot], ast.IsNot: [ast.Is], ast.In: [ast.NotIn], ast.NotIn: [ast.In]}


class Collector(ast.NodeVisitor):
    def __init__(self):
        self.sites = []  # (kind, lineno, col, extra)
        self.func = []

    def visit_FunctionDef(self, node):
        self.func.append(node.name)
        # skip docstring statement
        body = node.body[1:] if (node.body and isinstance(node.body[0], ast.Expr) and isinstance(getattr(node.body[0], "value", None), ast.Constant)
                                 and isinstance(node.body[0].value.value, str)) else node.body
        for st in body:
            if isinstance(st, (ast.Assign, ast.AugAssign, ast.Expr)) and len(node.body) > 1:
                if isinstance(st, ast.Expr) and isinstance(st.value, ast.Constant):
                    continue
                if isinstance(st, ast.Expr) and "_LOGGER" in ast.unparse(st):
                    continue  # dropping a log statement is invisible to every property
                self.sites.append(("drop", st.lineno, st.col_offset, node.name))
        self.generic_visit(node)
        self.func.pop()

    def visit_Compare(self, node):
        if self.func:
            for i, op in enumerate(node.ops):
                for rep in CMP.get(type(op), []):
                    self.sites.append(("cmp", node.lineno, node.col_offset, (i, rep.__name__, self.func[-1])))
        self.generic_visit(node)

    def visit_BoolOp(self, node):
        if self.func:
            self.sites.append(("bool", node.lineno, node.col_offset, self.func[-1]))
        self.generic_visit(node)

    def visit_If(self, node):
        if self.func:
            self.sites.append(("negif", node.lineno, node.col_offset, self.func[-1]))
        self.generic_visit(node)

    def visit_Constant(self, node):
        if self.func and isinstance(node.value, bool):
            self.sites.append(("boolconst", node.lineno, node.col_offset, self.func[-1]))
        elif self.func and isinstance(node.value, int) and not isinstance(node.value, bool) and abs(node.value) < 5000:
            self.sites.append(("int+1", node.lineno, node.col_offset, self.func[-1]))
            if node.value > 0:
                self.sites.append(("int-1", node.lineno, node.col_offset, self.func[-1]))
        self.generic_visit(node)

    def visit_BinOp(self, node):
        if self.func and isinstance(node.op, (ast.Add, ast.Sub)):
            self.sites.append(("addsub", node.lineno, node.col_offset, self.func[-1]))
        self.generic_visit(node)


class Applier(ast.NodeTransformer):
    def __init__(self, site):
        self.kind, self.line, self.col, self.extra = site
        self.done = False

    def _hit(self, node):
        return not self.done and getattr(node, "lineno", None) == self.line and getattr(node, "col_offset", None) == self.col

    def visit_Compare(self, node):
        self.generic_visit(node)
        if self.kind == "cmp" and self._hit(node):
            i, rep, _ = self.extra
            node.ops[i] = getattr(ast, rep)()
            self.done = True
        return node

    def visit_BoolOp(self, node):
        self.generic_visit(node)
        if self.kind == "bool" and self._hit(node):
            node.op = ast.Or() if isinstance(node.op, ast.And) else ast.And()
            self.done = True
        return node

    def visit_If(self, node):
        self.generic_visit(node)
        if self.kind == "negif" and self._hit(node):
            node.test = ast.UnaryOp(op=ast.Not(), operand=node.test)
            self.done = True
        return node

    def visit_Constant(self, node):
        if self._hit(node):
            if self.kind == "boolconst" and isinstance(node.value, bool):
                self.done = True
                return ast.copy_location(ast.Constant(value=not node.value), node)
            if self.kind in ("int+1", "int-1") and isinstance(node.value, int) and not isinstance(node.value, bool):
                self.done = True
                return ast.copy_location(ast.Constant(value=node.value + (1 if self.kind == "int+1" else -1)), node)
        return node

    def visit_BinOp(self, node):
        self.generic_visit(node)
        if self.kind == "addsub" and self._hit(node):
            node.op = ast.Sub() if isinstance(node.op, ast.Add) else ast.Add()
            self.done = True
        return node

    def generic_visit(self, node):
        if self.kind == "drop" and hasattr(node, "body") and isinstance(node.body, list):
            for i, st in enumerate(node.body):
                if self._hit(st) and isinstance(st, (ast.Assign, ast.AugAssign, ast.Expr)):
                    node.body[i] = ast.copy_location(ast.Pass(), st)
                    self.done = True
                    break
        return super().generic_visit(node)


def all_sites(files):
    out = []
    for f in files:
        src = (Path("/repo/src/cfdppy") / f).read_text()
        c = Collector()
        c.visit(ast.parse(src))
        for s in c.sites:
            out.append((f, s))
    return out


def recheck(out):
    """Re-runs the registered quick checks against the test-surviving mutants no check caught when the sweep ran (the checks have been
    strengthened since).  A mutant is located again by the text of its source line (the line numbers move when /repo gets a fix commit)."""
    results = json.loads(out.read_text())
    for rec in results["mutants"]:
        if rec["tests"] != "pass" or rec.get("caught_by"):
            continue
        f = rec["file"]
        lines = (Path("/repo/src/cfdppy") / f).read_text().splitlines()
        cands = [i + 1 for i, l in enumerate(lines) if l.strip() == rec["source_line"]]
        if not cands:
            rec["recheck"] = "source line no longer present"
            continue
        line = min(cands, key=lambda x: abs(x - rec["line"]))
        site = (rec["id"][1], line, rec["id"][3], json.loads(rec["id"][4]))
        d = Path(tempfile.mkdtemp(prefix="cfdp-am-", dir="/tmp"))
        try:
            subprocess.run(f"cp -r /repo/src {d}/src", shell=True, check=True)
            p = d / "src" / "cfdppy" / f
            tree = ast.parse(p.read_text())
            ap = Applier(site)
            tree = ap.visit(tree)
            if not ap.done:
                rec["recheck"] = "site not found again"
                continue
            ast.fix_missing_locations(tree)
            p.write_text(ast.unparse(tree) + "\n")
            rec["recheck"] = "still uncaught"
            for prop in ORDER:
                env = dict(os.environ, CFDPMON_REPO=str(d), CFDPMON_EVIDENCE_DIR=str(d / "ev"), CFDPMON_REPLAY_DIR=str(d / "rp"), CFDPMON_WORK_DIR=str(d / "wk"))
                try:
                    rc = subprocess.run(["/venv/bin/python", str(VERIF / "check.py"), prop, "--tier", "quick"], env=env, capture_output=True, text=True, timeout=900)
                except subprocess.TimeoutExpired:
                    continue
                if rc.returncode == 1 and f"VIOLATION property={prop}" in rc.stdout:
                    rec["recheck"] = "caught by " + prop
                    rec["recheck_witness"] = next((l for l in rc.stdout.splitlines() if l.startswith("violation:")), "")[:300]
                    break
            print(f"{f}:{line} {rec['kind']:<9} {rec['recheck']}  | {rec['source_line'][:90]}", flush=True)
            out.write_text(json.dumps(results, indent=1))
        finally:
            shutil.rmtree(d, ignore_errors=True)


def main():
    a = sys.argv[1:]
    if "--recheck" in a:
        opts = {a[i]: a[i + 1] for i in range(len(a) - 1) if a[i].startswith("--")}
        return recheck(Path(opts.get("--out", VERIF / "mutants" / "auto-results.json")))
    opts = {a[i]: a[i + 1] for i in range(len(a) - 1) if a[i].startswith("--")}
    files = opts.get("--files", ",".join(FILES)).split(",")
    n = int(opts.get("--sample", "50"))
    seed = int(opts.get("--seed", "0"))
    out = Path(opts.get("--out", VERIF / "mutants" / "auto-results.json"))
    sites = all_sites(files)
    rng = random.Random(seed)
    rng.shuffle(sites)
    results = json.loads(out.read_text()) if ("--resume" in a and out.exists()) else {"total_sites": len(sites), "mutants": []}
    done = {tuple(m["id"]) for m in results["mutants"]}
    survivors_wanted = n
    tried = 0
    for f, site in sites:
        mid = (f, site[0], site[1], site[2], json.dumps(site[3]))
        if mid in done:
            continue
        if sum(1 for m in results["mutants"] if m["tests"] == "pass") >= survivors_wanted:
            break
        tried += 1
        d = Path(tempfile.mkdtemp(prefix="cfdp-am-", dir="/tmp"))
        try:
            subprocess.run(f"cp -r /repo/src {d}/src && cp -r /repo/tests {d}/tests && cp /repo/pyproject.toml {d}/", shell=True, check=True)
            p = d / "src" / "cfdppy" / f
            tree = ast.parse(p.read_text())
            ap = Applier(site)
            tree = ap.visit(tree)
            if not ap.done:
                continue
            ast.fix_missing_locations(tree)
            new_src = ast.unparse(tree)
            old_line = (Path("/repo/src/cfdppy") / f).read_text().splitlines()[site[1] - 1].strip()
            p.write_text(new_src + "\n")
            rec = {"id": list(mid), "file": f, "kind": site[0], "line": site[1], "function": site[3] if isinstance(site[3], str) else site[3][-1], "source_line": old_line}
            r = subprocess.run(f"cd {d} && PYTHONPATH={d}/src timeout 300 /venv/bin/python -m pytest -q -x -p no:cacheprovider --timeout=60 tests 2>&1 | tail -2",
                               shell=True, capture_output=True, text=True)
            ok = " passed" in r.stdout and "failed" not in r.stdout and "error" not in r.stdout.lower()
            rec["tests"] = "pass" if ok else "fail"
            if ok:
                rec["caught_by"] = None
                rec["inconclusive"] = []
                for prop in ORDER:
                    env = dict(os.environ, CFDPMON_REPO=str(d), CFDPMON_EVIDENCE_DIR=str(d / "ev"), CFDPMON_REPLAY_DIR=str(d / "rp"), CFDPMON_WORK_DIR=str(d / "wk"))
                    try:
                        rc = subprocess.run(["/venv/bin/python", str(VERIF / "check.py"), prop, "--tier", "quick"], env=env, capture_output=True, text=True, timeout=900)
                    except subprocess.TimeoutExpired:
                        rec["inconclusive"].append(prop + ":timeout")
                        continue
                    if rc.returncode == 1 and f"VIOLATION property={prop}" in rc.stdout:
                        rec["caught_by"] = prop
                        first = next((l for l in rc.stdout.splitlines() if l.startswith("violation:")), "")
                        rec["witness"] = first[:300]
                        break
                    if rc.returncode not in (0, 1):
                        rec["inconclusive"].append(prop)
            results["mutants"].append(rec)
            done.add(mid)
            out.write_text(json.dumps(results, indent=1))
            print(f"{f}:{site[1]} {site[0]:<9} tests={rec['tests']:<4} caught_by={rec.get('caught_by')} inconclusive={rec.get('inconclusive')}  | {old_line[:90]}", flush=True)
        finally:
            shutil.rmtree(d, ignore_errors=True)
    surv = [m for m in results["mutants"] if m["tests"] == "pass"]
    print(f"sites={len(sites)} tried={len(results['mutants'])} test-surviving={len(surv)} caught={sum(1 for m in surv if m['caught_by'])} "
          f"uncaught={sum(1 for m in surv if not m['caught_by'])}")


if __name__ == "__main__":
    main()
