#!/venv/bin/python
"""Mutation trials: apply deliberate property-breaking edits to a *scratch copy* of the repository
(never /repo), check that the repository's own test-suite still passes (realistic, test-surviving
change) and that the registered quick check of the property fires.

usage: tools/mut.py mutants/<file>.json [name-substring ...] [--no-tests] [--tier quick]
Each mutant: {"name":..., "file": "src/cfdppy/...", "old": "...", "new": "...", "props": ["C03", ...]}
or {"name":..., "patch": "path/to/patch.diff", "props": [...]}  (a reverse-applied fix commit: "revert": "<sha>")
"""
import json
import os
import shutil
import subprocess
import sys
import tempfile
from pathlib import Path

VERIF = Path(__file__).resolve().parent.parent


def sh(cmd, **kw):
    return subprocess.run(cmd, shell=True, text=True, capture_output=True, **kw)


def main():
    args = [a for a in sys.argv[1:] if not a.startswith("--")]
    flags = [a for a in sys.argv[1:] if a.startswith("--")]
    spec = json.loads(Path(args[0]).read_text())
    filt = args[1:]
    tier = "quick"
    for f in flags:
        if f.startswith("--tier="):
            tier = f.split("=")[1]
    results = []
    for m in spec:
        if filt and not any(f in m["name"] for f in filt):
            continue
        d = Path(tempfile.mkdtemp(prefix="cfdp-mut-", dir="/tmp"))
        try:
            sh(f"cp -r /repo/src {d}/src && cp -r /repo/tests {d}/tests && cp /repo/pyproject.toml {d}/")
            if "revert" in m:
                r = sh(f"git -C /repo show {m['revert']} -- src | (cd {d} && patch -R -p1)")
                if r.returncode != 0:
                    print(m["name"], "PATCH FAILED", r.stdout[-300:], r.stderr[-300:])
                    continue
            elif "patch" in m:
                r = sh(f"cd {d} && patch -p1 < {VERIF / m['patch']}")
                if r.returncode != 0:
                    print(m["name"], "PATCH FAILED", r.stdout[-300:], r.stderr[-300:])
                    continue
            else:
                edits = m.get("edits") or [m]
                bad = False
                for e in edits:
                    p = d / e["file"]
                    s = p.read_text()
                    if s.count(e["old"]) != 1:
                        print(m["name"], f"OLD TEXT FOUND {s.count(e['old'])} TIMES in {e['file']}")
                        bad = True
                        break
                    p.write_text(s.replace(e["old"], e["new"]))
                if bad:
                    continue
            tests = "skipped"
            if "--no-tests" not in flags:
                r = sh(f"cd {d} && PYTHONPATH={d}/src /venv/bin/python -m pytest -q -x -p no:cacheprovider --timeout=900 tests 2>&1 | tail -3")
                tests = "pass" if " passed" in r.stdout and "failed" not in r.stdout and "error" not in r.stdout.lower() else "FAIL: " + r.stdout.strip()[-200:]
            row = {"name": m["name"], "tests": tests, "checks": {}}
            for prop in m["props"]:
                ev = d / "evidence"
                env = dict(os.environ, CFDPMON_REPO=str(d), CFDPMON_EVIDENCE_DIR=str(ev), CFDPMON_REPLAY_DIR=str(d / "replays"), CFDPMON_WORK_DIR=str(d / "work"))
                r = subprocess.run(["/venv/bin/python", str(VERIF / "check.py"), prop, "--tier", tier], env=env, text=True, capture_output=True)
                first = next((l for l in r.stdout.splitlines() if l.startswith("violation:")), "")
                code = r.returncode
                if code == 1 and f"VIOLATION property={prop}" not in r.stdout:
                    code = 3  # the check itself crashed: never counted as caught
                row["checks"][prop] = {"rc": code, "first": first[:300]}
                if code not in (0, 1):
                    row["checks"][prop]["out"] = (r.stdout + r.stderr)[-600:]
            results.append(row)
            status = " ".join(f"{p}:{'CAUGHT' if c['rc'] == 1 else ('missed' if c['rc'] == 0 else 'rc=%d' % c['rc'])}" for p, c in row["checks"].items())
            print(f"{m['name']:<50} tests={tests[:30]:<10} {status}")
            for p, c in row["checks"].items():
                if c["rc"] == 1:
                    print("      ", p, c["first"][:220])
                elif c["rc"] != 0:
                    print("      ", p, c.get("out", "")[-400:])
        finally:
            shutil.rmtree(d, ignore_errors=True)
    out = VERIF / ".work" / "mut-last.json"
    out.parent.mkdir(exist_ok=True)
    out.write_text(json.dumps(results, indent=1))


if __name__ == "__main__":
    main()
