#!/venv/bin/python
"""Cross matrix: every seeded break (seeded/<id>-<n>/patch.diff) x every registered check (quick tier), on scratch copies of /repo.

usage: tools/matrix.py [--props C01,C02,...] [--own-plus C10,C11] [--seeds C03-2,...] [--only-missing] [--out seeded/MATRIX.json]
Writes a JSON {seeded id: {property: "caught" | "missed" | "inconclusive" | "error"}} and prints a table.  A check counts as having caught a
patch only if it exits 1 and prints a VIOLATION line.
"""
import json
import os
import shutil
import subprocess
import sys
import tempfile
from pathlib import Path

VERIF = Path(__file__).resolve().parent.parent


def main():
    a = sys.argv[1:]
    opts = {a[i]: a[i + 1] for i in range(0, len(a) - 1) if a[i].startswith("--")}
    props = opts.get("--props", ",".join(f"C{i:02d}" for i in range(1, 21))).split(",")
    seeds = sorted(p.name for p in (VERIF / "seeded").iterdir() if (p / "patch.diff").exists())
    if "--seeds" in opts:
        seeds = [s for s in seeds if s in opts["--seeds"].split(",")]
    out = Path(opts.get("--out", VERIF / "seeded" / "MATRIX.json"))
    res = json.loads(out.read_text()) if out.exists() else {}
    own_plus = opts.get("--own-plus")
    all_props = props
    for sd in seeds:
        if own_plus is not None:
            # the check of the property the change was written for, plus the given general checks
            meta = json.loads((VERIF / "seeded" / sd / "meta.json").read_text())
            props = [meta["property"]] + [p for p in own_plus.split(",") if p and p != meta["property"]]
        if "--only-missing" in a and sd in res and all(p in res[sd] for p in props):
            continue
        d = Path(tempfile.mkdtemp(prefix="cfdp-mx-", dir="/tmp"))
        try:
            subprocess.run(f"cp -r /repo/src {d}/src", shell=True, check=True)
            ap = subprocess.run(f"cd {d} && patch -p1 -s < {VERIF / 'seeded' / sd / 'patch.diff'}", shell=True, capture_output=True, text=True)
            if ap.returncode != 0:
                res[sd] = {"_patch": "does not apply"}
                print(sd, "PATCH DOES NOT APPLY")
                continue
            row = res.setdefault(sd, {})
            for p in props:
                env = dict(os.environ, CFDPMON_REPO=str(d), CFDPMON_EVIDENCE_DIR=str(d / "ev"), CFDPMON_REPLAY_DIR=str(d / "rp"), CFDPMON_WORK_DIR=str(d / "wk"))
                r = subprocess.run(["/venv/bin/python", str(VERIF / "check.py"), p, "--tier", "quick"], env=env, capture_output=True, text=True)
                if r.returncode == 1 and f"VIOLATION property={p}" in r.stdout:
                    row[p] = "caught"
                elif r.returncode == 0:
                    row[p] = "missed"
                elif r.returncode == 2:
                    row[p] = "inconclusive"
                else:
                    row[p] = "error"
            print(sd, " ".join(f"{p}:{row[p][0].upper()}" for p in props), flush=True)
            out.write_text(json.dumps(res, indent=1, sort_keys=True))
        finally:
            shutil.rmtree(d, ignore_errors=True)


if __name__ == "__main__":
    main()
