#!/venv/bin/python
"""Writes seeded/README.md: one row per independently seeded break with the result of every registered check (from seeded/MATRIX.json,
produced by tools/matrix.py) and the first result recorded when the change was installed (meta.json)."""
import json
import re
from pathlib import Path

V = Path(__file__).resolve().parent.parent
mx = json.loads((V / "seeded" / "MATRIX.json").read_text()) if (V / "seeded" / "MATRIX.json").exists() else {}
rows = []
for d in sorted((V / "seeded").iterdir()):
    if not (d / "meta.json").exists():
        continue
    meta = json.loads((d / "meta.json").read_text())
    prop = meta["property"]
    title = ""
    if (d / "notes.md").exists():
        for line in (d / "notes.md").read_text().splitlines():
            line = line.strip().lstrip("#").strip()
            if line:
                title = re.sub(r"\s+", " ", line)[:150]
                break
    row = mx.get(d.name, {})
    caught = sorted(p for p, r in row.items() if r == "caught")
    own = row.get(prop, "not run")
    rows.append((d.name, prop, title, own, caught, meta.get("assessment", "")))
out = ["# Independently seeded breaks", "",
       "Each directory holds `patch.diff` (applies to `/repo` HEAD), `demo.py` (exits 0 without the patch, non-zero with it), `notes.md` (the author's description)",
       "and `meta.json` (what was run to confirm it).  Authors were fresh sub-agents which saw only the property text and a scratch worktree.",
       "Rounds 2 to 12 (`<id>r2-*` ... `<id>r12-*`) asked for particular kinds of change (cooperating edits, timing/order, aliasing/caching, boundary values,",
       "re-sent / late PDUs, refusal and fault paths, less travelled transfer shapes, several peers / handlers, interplay of two procedures, pacing of the",
       "entities, objects shared with the user, handling of time, modules outside the handlers, unusual orders of API calls, extreme configuration values, unusual content).",
       "", "Result of the quick tier of the property's own check and of the general checks C10 and C11 against the patched tree (`tools/matrix.py --own-plus C11,C10`;",
       "further checks where they were run by hand). `missed` own checks are explained under Assessments.", "",
       "| seeded change | property | summary (author's words) | own check | checks (of those run) that catch it |", "|---|---|---|---|---|"]
for name, prop, title, own, caught, note in rows:
    out.append(f"| {name} | {prop} | {title} | {own} | {', '.join(caught) if caught else '-'} |")
notes = [(n, a) for n, _, _, _, _, a in rows if a]
if notes:
    out += ["", "## Assessments", ""]
    for n, a in notes:
        out.append(f"* **{n}**: {a}")
n_own = sum(1 for r in rows if r[3] == "caught")
n_any = sum(1 for r in rows if r[4])
out += ["", f"Totals: {len(rows)} confirmed seeded changes; {n_own} caught by the check of the property they were written for; {n_any} caught by at least one check."]
(V / "seeded" / "README.md").write_text("\n".join(out) + "\n")
print(out[-1])
