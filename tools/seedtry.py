#!/venv/bin/python
"""Confirms a seeded break delivered by an independent sub-agent and runs the registered checks against it.

usage: tools/seedtry.py <PROP> <dir with patchN.diff/demoN.py/notesN.md> [--n 1,2] [--props C01,C12] [--tier quick] [--install]
For each patch N: (1) demo on a clean scratch copy of /repo must exit 0, (2) patch must apply, (3) the repository's test-suite must pass
with the patch, (4) the demo must fail with the patch, (5) the checks are run against the patched scratch copy (never /repo).
--install copies patch/demo/notes to /verif/seeded/<PROP>-<N>/ and writes meta.json with what was run and observed.
"""
import json
import os
import shutil
import subprocess
import sys
import tempfile
from pathlib import Path

VERIF = Path(__file__).resolve().parent.parent


def sh(cmd, **kw):
    return subprocess.run(cmd, shell=True, text=True, capture_output=True, **kw)


def main():
    a = sys.argv[1:]
    prop, src = a[0], Path(a[1])
    opts = {a[i]: a[i + 1] for i in range(2, len(a) - 1) if a[i].startswith("--") and not a[i + 1].startswith("--")}
    ns = [int(x) for x in opts.get("--n", "1,2").split(",")]
    props = opts.get("--props", prop).split(",")
    tier = opts.get("--tier", "quick")
    install = "--install" in a
    name = opts.get("--name", prop)
    for n in ns:
        patch, demo = src / f"patch{n}.diff", src / f"demo{n}.py"
        if not patch.exists():
            continue
        d = Path(tempfile.mkdtemp(prefix="cfdp-seed-", dir="/tmp"))
        try:
            sh(f"cp -r /repo/src {d}/src && cp -r /repo/tests {d}/tests && cp /repo/pyproject.toml {d}/")
            env = dict(os.environ, PYTHONPATH=f"{d}/src")
            # demos may mention the agent's worktree path: run them on a copy with that path rewritten
            demo_txt = demo.read_text()
            for wt in (f"/tmp/seed-{prop}", f"/tmp/seed-{name}"):
                demo_txt = demo_txt.replace(f"{wt}/src", f"{d}/src").replace(f"'{wt}'", f"'{d}'").replace(f'"{wt}"', f'"{d}"')
            (d / "demo.py").write_text(demo_txt)
            r0 = subprocess.run(["/venv/bin/python", str(d / "demo.py")], env=env, cwd=d, text=True, capture_output=True, timeout=600)
            ap = sh(f"cd {d} && patch -p1 < {patch}")
            r = sh(f"cd {d} && PYTHONPATH={d}/src /venv/bin/python -m pytest -q -x -p no:cacheprovider --timeout=900 tests 2>&1 | tail -3")
            tests_ok = " passed" in r.stdout and "failed" not in r.stdout and "error" not in r.stdout.lower()
            r1 = subprocess.run(["/venv/bin/python", str(d / "demo.py")], env=env, cwd=d, text=True, capture_output=True, timeout=600)
            row = {"patch": str(patch), "demo_clean_rc": r0.returncode, "patch_applies": ap.returncode == 0, "tests_pass_with_patch": tests_ok,
                   "demo_patched_rc": r1.returncode, "demo_patched_tail": (r1.stdout + r1.stderr).strip()[-300:], "checks": {}}
            confirmed = r0.returncode == 0 and ap.returncode == 0 and tests_ok and r1.returncode != 0
            row["confirmed"] = confirmed
            for p in props:
                envc = dict(os.environ, CFDPMON_REPO=str(d), CFDPMON_EVIDENCE_DIR=str(d / "evidence"), CFDPMON_REPLAY_DIR=str(d / "replays"),
                            CFDPMON_WORK_DIR=str(d / "work"))
                rc = subprocess.run(["/venv/bin/python", str(VERIF / "check.py"), p, "--tier", tier], env=envc, text=True, capture_output=True)
                first = next((l for l in rc.stdout.splitlines() if l.startswith("violation:")), "")
                code = rc.returncode
                if code == 1 and f"VIOLATION property={p}" not in rc.stdout:
                    code = 3  # the check itself crashed (e.g. not built yet): never counted as caught
                row["checks"][p] = {"rc": code, "tier": tier, "first": first[:400]}
                if code not in (0, 1):
                    row["checks"][p]["out"] = (rc.stdout + rc.stderr)[-500:]
            print(json.dumps(row, indent=1))
            print(f"== {name} patch{n}: confirmed={confirmed} " + " ".join(f"{p}:{'CAUGHT' if c['rc'] == 1 else ('missed' if c['rc'] == 0 else 'rc=%d' % c['rc'])}" for p, c in row["checks"].items()))
            if install and confirmed:
                dst = VERIF / "seeded" / f"{name}-{n}"
                dst.mkdir(parents=True, exist_ok=True)
                shutil.copy(patch, dst / "patch.diff")
                shutil.copy(demo, dst / "demo.py")
                if (src / f"notes{n}.md").exists():
                    shutil.copy(src / f"notes{n}.md", dst / "notes.md")
                meta = {"property": prop, "source": "independent sub-agent given only the property text and a scratch worktree",
                        "needs_to_manifest": "see notes.md",
                        "confirmed_by": "tools/seedtry.py: demo exit 0 on clean scratch copy, patch applies, repository test-suite passes with patch, demo exits non-zero with patch",
                        "demo_run": "PYTHONPATH=<scratch copy>/src /venv/bin/python demo.py",
                        "observed": {k: row[k] for k in ("demo_clean_rc", "tests_pass_with_patch", "demo_patched_rc", "demo_patched_tail")},
                        "checks_run": row["checks"]}
                (dst / "meta.json").write_text(json.dumps(meta, indent=1))
        finally:
            shutil.rmtree(d, ignore_errors=True)


if __name__ == "__main__":
    main()
