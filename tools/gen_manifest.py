#!/venv/bin/python
"""Regenerates /verif/MANIFEST.json from the check modules that exist (cfdpmon/checks/cXX.py)."""
import importlib
import json
import sys
from pathlib import Path

V = Path(__file__).resolve().parent.parent
sys.path.insert(0, str(V))
import cfdpmon  # noqa: E402,F401

LEVEL_TEXT = {
    "exploration": "Held on the executions produced: the real code is run on generated/enumerated workloads and an oracle written against the property statement judges every observed event. No claim beyond the inputs, schedules and configurations listed in the evidence (counts are measured per run).",
    "fault_enumeration": "Held on every enumerated fault placement within the stated bounds (exhaustive for small K/sizes, seeded random beyond) on the real handler pair with virtual time; liveness is restated as bounded progress in timer expiries. No claim beyond those bounds.",
}
NOTE = "Trusted base: CPython 3.12, spacepackets 0.26.1 (PDU (de)serialisation, Countdown; time source replaced by the virtual clock), crcmod, the bench in /verif/cfdpmon (recorders, link, shell, reference models). Harness duties = the documented user duties (drain the queue before the next call, answer PDUs of closed transactions, catch protocol exceptions)."
NOT_BUILT = "check under construction in this session (see DESIGN.md section 4); will be claimed once its monitor is silent on the unchanged tree"

checks, na = [], []
for i in range(1, 21):
    pid = f"C{i:02d}"
    if not (V / "cfdpmon" / "checks" / f"{pid.lower()}.py").exists():
        na.append({"property_id": pid, "reason": NOT_BUILT})
        continue
    m = importlib.import_module(f"cfdpmon.checks.{pid.lower()}")
    checks.append({
        "property_id": pid,
        "quick_cmd": f"/venv/bin/python check.py {pid} --tier quick",
        "thorough_cmd": f"/venv/bin/python check.py {pid} --tier thorough",
        "evidence_file": f"/verif/evidence/{pid}.json",
        "replay_cmd_template": f"/venv/bin/python check.py {pid} --replay {{path}}",
        "engine": "cfdpmon",
        "level_claimed": {"category": m.LEVEL, "text": LEVEL_TEXT[m.LEVEL] + " " + getattr(m, "LEVEL_TEXT", ""), "design_ref": f"DESIGN.md section 4, {pid}"},
        "level_note": NOTE + (" " + " ".join(m.ASSUMPTIONS) if getattr(m, "ASSUMPTIONS", None) else ""),
        "technique": m.TECHNIQUE,
    })
man = {
    "version": 1,
    "setup_cmd": "/venv/bin/python -m compileall -q cfdpmon check.py >/dev/null; /venv/bin/python -c \"import sys; sys.path.insert(0,'/verif'); import cfdpmon, cfdppy; print('cfdpmon ready, cfdppy at', cfdppy.__file__)\"",
    "hooks": {
        "guard": "CFDPPY_VERIF",
        "enable": "no source hooks: all instrumentation is attached from outside the repository (harness-supplied user / fault-handler / filestore / timer-provider objects, replacement of the outbound deque by a recording subclass, rebinding spacepackets.countdown.time_ms, sys.monitoring); the guard name is reserved and unused",
        "baseline_off_cmd": "cd /repo && /venv/bin/python -m pytest -ra -q -p no:cacheprovider --timeout=900 --continue-on-collection-errors",
        "source_commits": [],
        "add_only": True,
    },
    "engines": [{"name": "cfdpmon", "path": "/verif/cfdpmon", "serves_properties": [c["property_id"] for c in checks],
                 "kind_free_text": "runtime monitoring bench: real handlers in a byte-level loopback with virtual time, recording user/fault-handler/filestore/queue objects, reference models, sharded subprocess driver"}],
    "checks": checks,
    "notes": "Defects found and repaired are separate 'fix:' commits in /repo (34; see known_findings.json 'fixed' list and DESIGN.md sections 3 and 9.2); no open finding. Validation of the monitors (DESIGN.md 9.3): hand-written mutants (tools/mut.py with mutants/*.json on scratch copies), two AST mutation sweeps (tools/automut.py, mutants/auto-results*.json, mutants/auto-triage.md) and 304 changes seeded by independent sub-agents in twelve rounds (seeded/<id>/, seeded/README.md, seeded/MATRIX.json).",
    "not_applicable": na,
}
(V / "MANIFEST.json").write_text(json.dumps(man, indent=1) + "\n")
print("checks:", [c["property_id"] for c in checks], "pending:", [n["property_id"] for n in na])
