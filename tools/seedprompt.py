#!/venv/bin/python
"""Writes the task text handed to an independent seeding sub-agent (property text + its scratch worktree only)."""
import json, sys, subprocess
from pathlib import Path
props = {json.loads(l)["id"]: json.loads(l) for l in open("/verif/properties.jsonl")}
T = open("/verif/tools/seedprompt.txt").read()
for pid in sys.argv[1:]:
    name = pid
    pid = pid.split("-")[0]
    p = props[pid]
    wt, out = f"/tmp/seed-{name}", f"/tmp/seed-{name}-out"
    subprocess.run(["git", "-C", "/repo", "worktree", "add", "--detach", wt, "HEAD", "-q"], check=False)
    Path(out).mkdir(exist_ok=True)
    Path(out, "TASK.md").write_text(T.format(wt=wt, out=out, pid=pid, title=p["title"], statement=p["statement"], quant=p["quantifier"]["text"], anchors=json.dumps(p["anchors"])))
    print(name, "ready")
