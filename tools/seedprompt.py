#!/venv/bin/python
"""Writes the task text handed to an independent seeding sub-agent (property text + its scratch worktree only)."""
import json, sys, subprocess
from pathlib import Path
props = {json.loads(l)["id"]: json.loads(l) for l in open("/verif/properties.jsonl")}
T = open("/verif/tools/seedprompt.txt").read()
ROUND2 = """

FOCUS FOR THIS ROUND (other people already produced the obvious one-line regressions for this property; do something of a different kind):
 * change 1: %s
 * change 2: %s
If one of the two focus kinds is genuinely impossible for this property, say so in the notes and deliver another subtle change instead.
"""
FOCI = {
    "A": "two cooperating edits at different sites (different functions, ideally different files) which each look harmless and are harmless alone, but together break the property",
    "B": "a change whose effect depends on timing or order: it only shows when a timer expires, a PDU arrives, a cancel/put request is issued or get_next_packet is (not) called at one particular point of the transaction",
    "C": "a data-structure / aliasing / caching problem (shared mutable default, object kept by reference and modified later, value cached across transactions or across handler instances, stale flag) or a change in one of the less obvious modules (mib.py, handler/common.py, handler/defs.py, filestore.py, crc.py, user.py, request.py)",
    "F": "a change that only affects a PDU that is re-sent, duplicated, or arrives out of order or late (the first copy / the in-order case behaves exactly as before)",
    "G": "a change that only affects the less travelled transfer shapes: metadata-only requests, empty files, files of exactly one segment or an exact multiple of the segment length, closure requested in unacknowledged mode, a directory as destination",
    "H": "a change on an exception / refusal path: what is left behind (state, step, queued PDUs, counters, timers, files) after a protocol exception was raised, a request was refused, or a fault was declared, so that the *next* call or the next transaction misbehaves",
    "I": "a change that only matters when the entity deals with more than one peer or more than one handler object: several remote entity configurations in one table, requests towards different destinations one after the other (or refused while another runs), two handler instances sharing a user / filestore / configuration object, a peer whose configured parameters differ from this entity's own",
    "J": "a change in the interplay of two procedures of one transaction which each still work alone: e.g. a NAK retransmission while the EOF's ACK timer is running, a Finished PDU arriving while data is being re-sent, a cancel request while a retry procedure is active, the check timer against late data, a fault declared in a call which already queued PDUs",
    "K": "a change that only shows under a particular relative pacing of the two entities: one entity makes several state machine calls before the other gets its turn, PDUs pile up on the link and answers (ACK, NAK, Finished) arrive late but in order, the sender is far ahead of the receiver's NAKs or the receiver works in bursts",
    "L": "a change in how the library treats objects it shares with its user: PutRequest, RemoteEntityCfg / LocalEntityCfg / IndicationCfg, the parameter objects passed to indication callbacks, PDU objects handed in or out - mutated, kept by reference and read later, or copied too early, so that what the user does with the object afterwards (re-use, edit, inspect later) goes wrong",
    "M": "a change in the handling of time: a Countdown created too early or too late, reset at the wrong place or not at all, an expiry consumed by the wrong procedure, behaviour when the user changes an interval between transactions or when an interval is very small or very large",
    "N": "a change outside the two handler modules: filestore.py (NativeFilestore operations, path handling, error codes, checksum reading loop), crc.py, mib.py (tables, lookups, defaults, fault handler table), request.py, user.py, handler/common.py, handler/defs.py, exceptions.py - a place a reviewer of a 'handler' change would not look at",
    "O": "a change that only shows for unusual but legal orders of API calls: get_next_packet when nothing is queued, state_machine before any request or after completion, reset() in the middle of a transaction or twice, cancel_request twice or after completion, a put request right after reset, queries of the handler's public properties (state, step, progress, transaction_id, num_packets_ready) between calls",
    "P": "a change that needs an extreme but legal configuration value to show: a limit of 1 or of several hundred, a timer interval of a millisecond or of days, a maximum packet length barely above the fixed PDU overhead, a segment length of 1 byte or far larger than the file, a very long file name or many messages to user / options in the Metadata PDU, sequence numbers at the top of their range",
    "Q": "a change that only shows for unusual but legal *content* of requests or PDUs: binary or non-ASCII file names and messages to user, empty or maximal-length (255 byte) fields, options / TLVs in the Metadata or Finished PDU (filestore requests and responses, flow label, fault handler overrides, fault location), the large-file flag, segment metadata in File Data PDUs, reserved or rarely used enumeration values that still parse",
    "D": "a boundary-value problem that needs an unusual but legal configuration or input (entity-id or sequence-number width, CRC flag, checksum type, file size relative to segment length or packet length, limit of 1, zero-length or maximum-length field, large-file flag)",
}
for pid in sys.argv[1:]:
    name = pid
    foci = None
    if ":" in pid:
        pid, f = pid.split(":")
        name = pid
        foci = (FOCI[f[0]], FOCI[f[1]])
    pid = pid.split("-")[0]
    p = props[pid]
    wt, out = f"/tmp/seed-{name}", f"/tmp/seed-{name}-out"
    subprocess.run(["git", "-C", "/repo", "worktree", "add", "--detach", wt, "HEAD", "-q"], check=False)
    Path(out).mkdir(exist_ok=True)
    extra = ROUND2 % foci if foci else ""
    Path(out, "TASK.md").write_text(extra.join(T.split("Read the code first", 1)[:1]) .format(wt=wt, out=out, pid=pid, title=p["title"], statement=p["statement"], quant=p["quantifier"]["text"], anchors=json.dumps(p["anchors"])) + "" if False else (T.replace("Read the code first", extra.replace("{", "{{").replace("}", "}}") + "\nRead the code first", 1)).format(wt=wt, out=out, pid=pid, title=p["title"], statement=p["statement"], quant=p["quantifier"]["text"], anchors=json.dumps(p["anchors"])))
    print(name, "ready")
